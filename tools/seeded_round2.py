#!/usr/bin/env python3
"""Second round of seeded changes (seeded/<id>/round2/): table of what each change is and needs, runner and meta writer.

  tools/seeded_round2.py run      runs every change through the listed checks (tools/run_seeded.py --copy: a scratch worktree of
                                  /repo's HEAD, /repo itself untouched) and writes seeded/results_round2.json
  tools/seeded_round2.py meta     writes seeded/<id>/round2/meta.json from the table + results + /tmp-independent verification
                                  results (seeded/verified_round2.json, produced by tools/verify_seeded.sh runs)
  tools/seeded_round2.py table    prints the DESIGN.md table
"""
import json
import os
import re
import subprocess
import sys

V = os.path.dirname(os.path.dirname(os.path.abspath(__file__)))

R2 = {
 "C01": [
  dict(n="", what="exclude_spawns_of: a nameless ancestor is skipped with `continue` placed above the statement that advances the pid: the walk re-reads the same /proc/<pid>/stat forever, exec never reaches libc",
       needs="exclude_spawns_of in the chain and an ancestor whose process name is empty", checks="C15,C01", missed=True,
       strengthened="C15 got ancestors with an empty name (and C01's filter configurations run under such a chain); a hang is routed as a violation"),
  dict(n="2", what="cmdline data source sanitises the caller's argument strings in place instead of its own copy: the argv handed to libc is altered (or SIGSEGV on read-only strings)",
       needs="%{cmdline} evaluated and an argument containing a newline or carriage return", checks="C01", missed=False),
 ],
 "C02": [
  dict(n="", what="data-source scratch buffer in message.c allocated once per process (static) but still handed out with the current call's size",
       needs="a second call in the same process with a larger datasource_message_max_length, or a file: path template (PATH_MAX-1) after a default-size first call", checks="C02,C11", missed=False),
  dict(n="2", what="exclude_spawns_of: strrchr -> strchr when locating the end of comm in /proc/<pid>/stat: the rest of the name is parsed as state and parent pid, the walk can cycle forever (or compare the wrong ancestors)",
       needs="exclude_spawns_of configured and an ancestor named like 'a) S <pid> ('", checks="C15,C02", missed=True,
       strengthened="C15's ancestor names now include parentheses-and-state look-alikes; hang = violation"),
 ],
 "C03": [
  dict(n="", what="cgroup data source: single-exit refactoring leaves one free() behind on the read-failure path: double free, SIGABRT in the caller",
       needs="open/read of /proc/<pid>/cgroup failing while %{cgroup} or %{systemd_unit_name} is formatted", checks="C03", missed=False),
  dict(n="2", what="socket output falls back to a *blocking* stream connect when the datagram connect fails: caller blocks forever in connect()",
       needs="socket: path is a listening stream socket nobody accepts on, after backlog+1 earlier messages", checks="C03", missed=True,
       strengthened="C03's natural sink states got 'stream listener that never accepts' with repeated calls on bounded-queue sinks"),
 ],
 "C04": [
  dict(n="", what="error handler 'restores' error_logging to TRUE instead of its previous value: with error logging off, the second internal error of one exec is dispatched as a record of its own",
       needs="error logging off and two pieces of one message that do not fit log_message_max_length", checks="C05,C02,C04", missed=True,
       strengthened="C05/C04 generate formats with several over-long pieces under both error_logging settings and compare the number of records"),
  dict(n="2", what="file output opens with O_NONBLOCK (copied from the socket output): on a FIFO without a reader yet the record is lost",
       needs="file: path is a FIFO whose reader attaches late", checks="C04", missed=True,
       strengthened="C04 got a FIFO sink whose reader attaches after the call was issued (vdrive fifosink/waitreader)"),
 ],
 "C05": [
  dict(n="", what="appendN() uses the data source's return value (snprintf's would-be length) for its fit test: an over-long source output is dropped entirely instead of being cut to the data-source limit",
       needs="a data source output longer than datasource_message_max_length whose untruncated length exceeds the room left", checks="C05,C06", missed=True, not_claimed=True,
       strengthened="none: by the letter of C05 ('whenever the full expansion fits within those limits it is emitted exactly', otherwise only the bounds) and C06 ('the value is a prefix') an empty contribution for an over-limit output is allowed; not claimed (DESIGN section 11)"),
  dict(n="2", what="tag name/argument parse buffers in message.c made static: shared by all threads", needs="two threads formatting at the same time", checks="C09", missed=False),
 ],
 "C06": [
  dict(n="", what="cmdline result cached per thread keyed by the argv *pointer*: a later exec reusing the same array gets the first exec's command line",
       needs="two execs in one thread through the same argv array with different contents", checks="C06", missed=False),
  dict(n="2", what="data sources are called with logMessageBufSize instead of dataSourceMsgBufSize: heap overflow / untruncated value above the data-source limit",
       needs="a data-source value longer than datasource_message_max_length through the message formatter", checks="C06,C02", missed=False),
 ],
 "C07": [
  dict(n="", what="message is formatted before the filter chain is consulted: with error_logging on, a dropped call whose message overflows still emits 'Maximum destination string size exceeded' records",
       needs="error_logging = yes, a dropping chain and a message longer than log_message_max_length", checks="C04,C07", missed=True,
       strengthened="C04's filtered cases include over-long messages under error_logging=yes with small limits (any output on a dropped call is a violation)"),
  dict(n="2", what="strtok_r -> strtok in the chain walker and in exclude_spawns_of: the nested tokenizer clobbers the walker's state, filters right of exclude_spawns_of are skipped",
       needs="exclude_spawns_of with a list, followed by a filter that drops", checks="C07", missed=False),
  dict(n="3", what="filter argument variable no longer reset per element: an argument-less element inherits the previous element's argument",
       needs="an element with argument followed by an argument-taking filter written without one (only_uid after exclude_uid:0)", checks="C07", missed=True,
       strengthened="C07's generator now emits argument-less spellings of argument-taking filters after elements with arguments, plus an unconditional metamorphic check (chain == conjunction of its single-element chains)"),
 ],
 "C08": [
  dict(n="", what="the 'no' default of error_logging is no longer written by the reset: a value set by an earlier file survives into a cycle whose file is silent about it",
       needs="two cycles in one process, first with error_logging = yes, second without the key", checks="C11", missed=False),
  dict(n="2", what="syslog facility/level value clean-up uses a shared static scratch buffer", needs="two threads parsing the config at the same time", checks="C09", missed=True,
       strengthened="C09's TSan/stress configurations now carry syslog_facility/syslog_level/ident lines and a devlog priority oracle", neutralised=True,
       note="caught by C09 (`tsan:data-race@configfile.c`, `stress:devlog-frame-differs`) until fix 6e1c772 put the config file parse under the registry mutex: since then two threads never parse at the same time, the change cannot manifest any more and its own demonstration passes on the patched build - correctly no alarm"),
 ],
 "C09": [
  dict(n="", what="pthread_once replaced by a plain 'initialized' flag for the registry mutex", needs="the first two exec calls of the process overlap", checks="C09", missed=False),
  dict(n="2", what="file output writes record and newline with two write() calls", needs="another writer between the two writes", checks="C09,C17", missed=False),
 ],
 "C10": [
  dict(n="", what="file output takes flock() on the log file and relies on close() to drop it: a fork()ed child inherits the open file description and with it the lock state",
       needs="fork while another thread sits between flock() and close(); the child then logs to the same file", checks="C10", missed=True,
       strengthened="C10's fork mode got stop points right before every I/O call the library makes (open/write/close/socket/send/flock/fopen/fclose)"),
  dict(n="2", what="pthread_once replaced by a hand-made double-checked guard with its own mutex: unlike glibc's pthread_once it is not fork-aware, a fork during the first call's initialisation leaves the child with that mutex locked", needs="fork while another thread executes the very first wrapped call's initialisation", checks="C10", missed=False),
 ],
 "C11": [
  dict(n="", what="output registry caches the resolved output id keyed by the CFG->output *pointer*: after the name changes in snoopy.ini a re-used heap address dispatches to the previous output",
       needs="two calls in one process with the output changed in between and the allocator returning the same address", checks="C11", missed=False),
  dict(n="2", what="missing fclose() on the parse-error path of snoopy_configfile_load(): one FILE and descriptor leaked per call under a damaged file",
       needs="snoopy.ini present, readable and syntactically damaged over several calls", checks="C11,C16", missed=False),
 ],
 "C12": [
  dict(n="", what="getpwuid_r replaced by getpwuid (process-wide static buffer)", needs="two threads resolving user names at the same time", checks="C09,C12", missed=False),
  dict(n="2", what="rpname: 'v++' skipping the tab after 'Name:' became while(isspace(*v)): leading blanks of the root process name are lost",
       needs="a root process (child of pid 1) whose name begins with blanks or tabs", checks="C12", missed=True,
       strengthened="C12 states now include process trees of their own: the top process is orphaned (re-parented to pid 1) and carries a chosen name (leading blanks/tabs, parentheses, 'Name:'-like text); the oracle reads /proc/<pid>/comm (it had the same blank-skipping flaw before)"),
 ],
 "C13": [
  dict(n="", what="tag name/argument scratch buffers of the formatter made static: the name passed to the registry can be overwritten by another thread between parsing and lookup",
       needs="two threads inside the formatter", checks="C09,C13", missed=False),
  dict(n="2", what="generic registry lookup uses strncmp(name, item, strlen(item)): prefix match; an absent name that is a prefix of a present one resolves to it (tid off -> tid_kernel, '' -> first entry)",
       needs="a switched-off feature whose name prefixes an enabled one, or an abbreviated/empty name", checks="C13", missed=True,
       strengthened="C13's probe now drives the real lookup functions with every name of the all-on build, each proper prefix, the empty name and extended/upper-case spellings in all 302 configurations"),
 ],
 "C14": [
  dict(n="", what="atol -> strtoul followed by 'if (ERANGE == errno) continue' without clearing errno first: every list entry is skipped when errno was already ERANGE",
       needs="the calling thread reaches exec with errno == ERANGE left over from its own earlier calls", checks="C14", missed=True,
       strengthened="vdrive can set the errno the caller holds on entry (preerrno); C14, C12 and C16 vary it"),
  dict(n="2", what="csv list parser rewritten with strtok()", needs="two threads evaluating a uid filter at the same time", checks="C09,C14", missed=False),
 ],
 "C15": [
  dict(n="", what="walk error (-1) no longer distinguished from 'found': an unreadable process tree drops the call", needs="/proc unreadable or an ancestor whose stat line cannot be parsed", checks="C15", missed=False),
  dict(n="2", what="fclose() of each visited ancestor's stat stream lost", needs="many calls in one process or a deep chain under a tight descriptor limit", checks="C16,C15", missed=False),
 ],
 "C16": [
  dict(n="", what="stdout/stderr outputs end with pthread_sigmask(SIG_UNBLOCK, SIGPIPE) instead of restoring the saved mask",
       needs="output stdout/stderr and a caller that had SIGPIPE blocked", checks="C16", missed=True,
       strengthened="C16 runs start from callers with blocked and ignored signals (SIGPIPE among them) and the very first call of a run is judged too (it used to be an unjudged warm-up)"),
  dict(n="2", what="fork child handler keeps the *other* threads' registry entries and drops its own (inverted pthread_equal test)",
       needs="fork while another thread is between init and cleanup, observed in the child", checks="C16,C10", missed=True,
       strengthened="C16 got a fork arm on the controlled scheduler with the allocator monitor loaded in the child (it also found a genuine leak in fix 0489949, repaired by 5bbf027); patch re-based onto 5bbf027"),
 ],
 "C17": [
  dict(n="", what="file output line buffer made a file-scope static grown with realloc: shared by all threads", needs="two threads of one process in the file output at the same time", checks="C17,C09", missed=False,
       note="first run exited 2 (a crashed writer process was reported as a harness failure); now a violation"),
  dict(n="2", what="short write is 'rolled back' with lseek(SEEK_END)+ftruncate(end-count): cuts another writer's record", needs="a short write (disk full, quota) and a second writer appending in the window", checks="C17", missed=True,
       strengthened="C17 traces records on a tmpfs that fills up mid-record (short write, then ENOSPC): no truncate/second attempt, bytes in front unchanged"),
 ],
 "C18": [
  dict(n="", what="temporary file opened with open(O_WRONLY|O_CREAT|O_NOFOLLOW)+fdopen: O_TRUNC lost, a longer left-over temporary file leaks its tail into ld.so.preload",
       needs="an earlier run killed before its rename, then a shorter file", checks="C18,C19,C20", missed=True,
       strengthened="C18/C19 leave stale temporary files (longer / shorter) next to a third of the inputs; C20 got a history arm (kill before rename, change the file, run again)"),
  dict(n="2", what="fputs(content) -> fprintf(fh, content)", needs="a '%' in the existing (foreign) content", checks="C18,C19", missed=True,
       strengthened="line alphabet of C18/C19 extended by entries and comments containing % conversions"),
 ],
 "C19": [
  dict(n="", what="same lost O_TRUNC through the shared writer, reached from disable", needs="left-over longer temporary file", checks="C19,C20", missed=True, strengthened="see C18/patch"),
  dict(n="2", what="isspace() instead of 'space or tab' when skipping blanks after the entry: newlines (blank lines) after the entry are eaten", needs="the entry followed by blank lines or CR", checks="C19", missed=False),
 ],
 "C20": [
  dict(n="", what="stdio replaced by one write() whose short count is treated as success: a truncated new content is renamed in",
       needs="a short write (file size limit, full disk, quota)", checks="C20", missed=True,
       strengthened="C20 runs every scenario under RLIMIT_FSIZE of 0, 1, half and length-1 of the new content, with SIGXFSZ ignored (short write) and fatal"),
  dict(n="2", what="temporary file no longer truncated (dropped O_TRUNC)", needs="left-over temporary file of a killed run, then a shorter content", checks="C20,C18", missed=True, strengthened="see C18/patch"),
 ],
}


def run():
    res = {}
    out = os.path.join(V, "seeded", "results_round2.json")
    if os.path.exists(out):
        res = json.load(open(out))
    only = sys.argv[2:] or None
    for prop, items in R2.items():
        for it in items:
            key = "%s/round2/patch%s.diff" % (prop, it["n"])
            if only and not any(o in key for o in only):
                continue
            p = subprocess.run([sys.executable, os.path.join(V, "tools", "run_seeded.py"), os.path.join(V, "seeded", key), "--checks", it["checks"], "--copy"],
                               capture_output=True, text=True)
            cur = None
            r = {}
            for line in p.stdout.splitlines():
                m = re.match(r"== (C\d\d) exit=(\d+)", line)
                if m:
                    cur = m.group(1)
                    r[cur] = dict(exit=int(m.group(2)), keys=[])
                m = re.match(r"\s+key=(\S+)", line)
                if m and cur:
                    r[cur]["keys"].append(m.group(1))
            res[key] = r
            print(key, {c: (v["exit"], v["keys"][:2]) for c, v in r.items()}, flush=True)
            json.dump(res, open(out, "w"), indent=1)


def meta():
    res = json.load(open(os.path.join(V, "seeded", "results_round2.json")))
    ver = json.load(open(os.path.join(V, "seeded", "verified_round2.json")))
    for prop, items in R2.items():
        d = os.path.join(V, "seeded", prop, "round2")
        m = dict(property=prop, round=2, changes=[])
        for it in items:
            key = "%s/round2/patch%s.diff" % (prop, it["n"])
            r = res.get(key, {})
            v = ver.get(key, {})
            m["changes"].append(dict(patch="patch%s.diff" % it["n"], demo="demo%s.sh" % it["n"], breaks_property=prop, what=it["what"], needs=it["needs"],
                                     missed_at_first=it["missed"], strengthened=it.get("strengthened"), note=it.get("note"), not_claimed=it.get("not_claimed", False), neutralised_by_later_fix=it.get("neutralised", False),
                                     confirmed=v,
                                     ran="tools/run_seeded.py <patch> --checks %s --copy  (patch applied to a scratch worktree of /repo HEAD, checks run with VERIF_REPO pointing there; same as git -C /repo apply / check / git -C /repo checkout -- .)" % it["checks"],
                                     caught_by={c: x["keys"][:6] for c, x in r.items() if x["exit"] == 1},
                                     not_caught_by=[c for c, x in r.items() if x["exit"] == 0]))
        json.dump(m, open(os.path.join(d, "meta.json"), "w"), indent=1)
    print("round-2 meta written")


def table():
    res = json.load(open(os.path.join(V, "seeded", "results_round2.json")))
    print("| id | change | needs, to manifest | caught by (first key) | history |")
    print("|---|---|---|---|---|")
    for prop, items in R2.items():
        for it in items:
            key = "%s/round2/patch%s.diff" % (prop, it["n"])
            r = res.get(key, {})
            caught = ", ".join("%s (`%s`)" % (c, x["keys"][0].split(":", 1)[1] if x["keys"] else "?") for c, x in r.items() if x["exit"] == 1) or "—"
            if it.get("neutralised"):
                caught = "— (no longer manifests)"
            hist = "caught as built" if not it["missed"] else ("**not claimed** → " if it.get("not_claimed") else "**missed at first** → ") + it.get("strengthened", "")
            if it.get("note"):
                hist += " (" + it["note"] + ")"
            print("| %s/r2/patch%s | %s | %s | %s | %s |" % (prop, it["n"], it["what"].replace("|", "\\|"), it["needs"].replace("|", "\\|"), caught, hist))


if __name__ == "__main__":
    {"run": run, "meta": meta, "table": table}[sys.argv[1]]()
