/* vtrue - static target of "real" exec cases: appends its own argv/envp as one JSON line to fd 199 and exits 0. */
#include <stdio.h>
#include <string.h>
#include <unistd.h>
extern char **environ;
static void hexs(FILE *f, const char *s) {
    for (; *s; s++) fprintf(f, "%02x", (unsigned char) *s);
}
int main(int argc, char **argv) {
    FILE *f = fdopen(199, "a");
    if (!f) return 97;
    fprintf(f, "{\"ev\":\"VTRUE\",\"pid\":%d,\"argc\":%d,\"argv\":[", getpid(), argc);
    for (int i = 0; i < argc; i++) { fprintf(f, "%s\"", i ? "," : ""); hexs(f, argv[i]); fprintf(f, "\""); }
    fprintf(f, "],\"envp\":[");
    for (int i = 0; environ && environ[i]; i++) { fprintf(f, "%s\"", i ? "," : ""); hexs(f, environ[i]); fprintf(f, "\""); }
    fprintf(f, "]}\n");
    fflush(f);
    return 0;
}
