"""Generic batching of vdrive cases: many cases per driver process (each in its own fork block unless told otherwise),
16 driver processes in parallel, findings and statistics merged."""
import os

from .common import Findings, Harness, mkwork, rmwork
from .drive import Script, pmap, run_vdrive


class Batch:
    """Per-batch context handed to the callbacks."""

    def __init__(self, work, prop):
        self.work = work
        self.F = Findings(prop)
        self.st = {}
        self.logf = os.path.join(work, "log")
        self.sock = os.path.join(work, "sock")

    def count(self, k, n=1):
        self.st[k] = self.st.get(k, 0) + n


def _run(arg):
    prop, bld, batch, bi, root, script_fn, check_fn, opts = arg
    work = os.path.join(root, "b%05d" % bi)
    os.makedirs(work, exist_ok=True)
    os.chmod(work, 0o777)
    B = Batch(work, prop)
    open(B.logf, "a").close()
    os.chmod(B.logf, 0o666)
    s = Script()
    s.sinkfile(B.logf)
    for c in batch:
        script_fn(c, B, s)
    res = run_vdrive(bld, s.text(), work, timeout=opts.get("timeout", 600), asan=opts.get("asan", False),
                     heap=opts.get("heap", False), mtx=opts.get("mtx", True), env_extra=opts.get("env"),
                     exe=opts.get("exe"), preload=opts.get("preload"))
    if res.timeout:
        B.F.inconclusive_case("batch %d timed out: %s" % (bi, getattr(res, "hang_info", "")[:400]))
        B.count("inconclusive", len(batch))
        B.timeout = True
    if res.rc not in (0, None) and not res.timeout and not opts.get("allow_driver_death"):
        # the driver itself died outside a fork block
        B.count("driver_died")
        B.driver_rc = res.rc
    byid = {}
    for e in res.events:
        byid.setdefault(e.get("id", e.get("tag")), []).append(e)
    pid2id = {e["pid"]: e["id"] for e in res.events if e["ev"] == "BEGIN"}
    for e in res.events:
        if e["ev"] == "VTRUE" and e["pid"] in pid2id:
            byid.setdefault(pid2id[e["pid"]], []).append(e)
    B.res = res
    for c in batch:
        check_fn(c, byid.get(c["id"], []), B)
    B.res = None
    if not opts.get("keep"):
        rmwork(work)
    return B.F, B.st


def run_cases(prop, bld, cases, script_fn, check_fn, batch_size=50, nproc=16, **opts):
    """cases: list of dicts with unique integer 'id'. Returns (Findings, stats)."""
    root = mkwork(prop.lower())
    try:
        batches = [(prop, bld, cases[i:i + batch_size], i // batch_size, root, script_fn, check_fn, opts)
                   for i in range(0, len(cases), batch_size)]
        results = pmap(_run, batches, nproc)
    finally:
        rmwork(root)
    F = Findings(prop)
    tot = {}
    for f, st in results:
        merge_findings(F, f)
        for k, v in st.items():
            if isinstance(v, list):
                tot.setdefault(k, []).extend(v)
            else:
                tot[k] = tot.get(k, 0) + v
    return F, tot


def merge_findings(F, f):
    for k, v in f.viol.items():
        if k in F.viol:
            F.viol[k]["count"] += v["count"]
        else:
            F.viol[k] = v
    F.inconclusive += f.inconclusive


def events_of(evs, kind):
    return [e for e in evs if e["ev"] == kind]


def child_signal(evs):
    ch = events_of(evs, "CHILD")
    return ch[0]["signal"] if ch else 0
