"""C14 - UID filters decide by exact membership of the real uid.

Children run under real uid R with an unrelated effective uid E; for each (R, L) the three filters only_uid:L,
exclude_uid:L and only_root are consulted through the production library (one wrapped call each) and the logged /
not-logged outcome is compared with exact set membership; only_uid:L xor exclude_uid:L must hold for every pair.
Lists longer than a config line can carry are fed through the compile-time-style entry (in-vitro arm, see c14 vitro).
"""
import time

from vlib import build as vbuild
from vlib.batch import events_of, run_cases
from vlib.common import Findings, Harness, log, rng_for, tier, write_evidence
from vlib.drive import ensure_harness, sink_bytes

PROP = "C14"
UIDS = [0, 1, 999, 65535, 65536, 2**31 - 1, 2**31, 2**32 - 2]


def near(rng, R):
    s = str(R)
    c = {R + 1, max(0, R - 1), int(s + "0"), int(s[:-1]) if len(s) > 1 else 7, int("1" + s), int(s + s) if len(s) < 5 else R + 10,
         (R + 2**16) % 2**32, (R + 2**31) % 2**32 if R < 2**31 else R - 2**31, int(s[1:]) if len(s) > 1 else 8}
    c = [x for x in c if 0 <= x <= 2**32 - 2 and x != R]
    return c


def make_cases(tr):
    rng = rng_for(PROP, tr)
    n = 6000 if tr == "quick" else 60000
    cases = []
    for i in range(n):
        R = rng.choice(UIDS)
        E = rng.choice([u for u in UIDS if u != R])
        k = rng.choice([1, 1, 2, 3, 5, 10, 40, 85])
        contains = rng.random() < 0.5
        pool = near(rng, R) + [rng.choice(UIDS + [2, 1000, 12345, 4294967294]) for _ in range(3)]
        pool = [x for x in pool if x != R]
        L = [rng.choice(pool) if rng.random() < 0.6 else rng.randrange(0, 2**32 - 1) for _ in range(k)]
        L = [x for x in L if x != R]
        if not L:
            L = [R + 1 if R + 1 < 2**32 - 1 else R - 1]
        if contains:
            for _ in range(rng.choice([1, 1, 2])):      # duplicates allowed
                L.insert(rng.randrange(0, len(L) + 1), R)
        text = ",".join(str(x) for x in L)
        if len(text) > 950:
            L = L[:40] + ([R] if contains else [])
            text = ",".join(str(x) for x in L)
        # the value errno happens to hold when the caller reaches exec (left over from the caller's own earlier calls)
        cases.append(dict(id=i + 1, R=R, E=E, L=L, text=text, contains=R in L, errno=rng.choice([0, 0, 34, 34, 22, 4, 75, 2])))
    return cases


FILTERS = ["only_uid", "exclude_uid", "only_root"]


def script_fn(c, B, s):
    s.fork(c["id"])
    # priming calls as uid 0 first: whatever the filters remember from them must not decide the calls made after the uid change
    for j, f in enumerate(FILTERS):
        chain = f if f == "only_root" else "%s:%s" % (f, c["text"])
        s.conf(("[snoopy]\nmessage_format = \"P%d-%d\"\noutput = devnull\nfilter_chain=\"%s\"\n" % (c["id"], j, chain)).encode())
        s.call(c["id"] * 10 + 5 + j, "execve", b"/bin/u", [b"u"], [b"E=1"], -1, 2)
    s.raw("uid %d %d %d" % (c["R"], c["E"], c["R"]))
    s.raw("preerrno %d" % c["errno"])
    for j, f in enumerate(FILTERS):
        chain = f if f == "only_root" else "%s:%s" % (f, c["text"])
        conf = ("[snoopy]\nmessage_format = \"M%d-%d\"\noutput = file:%s\nfilter_chain=\"%s\"\n" % (c["id"], j, B.logf, chain)).encode()
        s.conf(conf)
        s.call(c["id"] * 10 + j, "execve", b"/bin/u", [b"u"], [b"E=1"], -1, 2)
    s.endfork()


def check_fn(c, evs, B):
    wit = dict(real_uid=c["R"], effective_uid=c["E"], list=c["text"], errno_at_entry=c["errno"])
    ch = events_of(evs, "CHILD")
    if ch and ch[0]["signal"]:
        B.F.violation("C14:caller-killed:sig%d" % ch[0]["signal"], "caller died (uid %d, list %s)" % (c["R"], c["text"][:80]), wit)
        return
    got = {}
    for e in B.res.events:
        if e["ev"] == "REAL" and e["id"] // 10 == c["id"] and e["id"] % 10 < 3:
            j = e["id"] % 10
            rec = sink_bytes(e, "file0")
            if rec == b"M%d-%d\n" % (c["id"], j):
                got[j] = True
            elif rec == b"":
                got[j] = False
            else:
                B.F.violation("C14:unexpected-record", "record %r" % rec[:60], wit)
                return
            if e["ids"].split(",")[0] != str(c["R"]):
                raise Harness("child not running under the intended real uid: %s" % e["ids"])
    if len(got) != 3:
        raise Harness("missing REAL events for case %d: %s" % (c["id"], got))
    B.count("pairs")
    exp = {0: c["contains"], 1: not c["contains"], 2: c["R"] == 0}
    for j, f in enumerate(FILTERS):
        if got[j] != exp[j]:
            cls = "member" if c["contains"] else "non-member"
            B.F.violation("C14:%s:%s-%s" % (f, cls, "logged" if got[j] else "dropped"),
                          "%s with real uid %d (euid %d), list [%s]: %s, expected %s" % (f, c["R"], c["E"], c["text"][:120],
                                                                                   "logged" if got[j] else "dropped", "logged" if exp[j] else "dropped"), wit)
    if got[0] == got[1]:
        B.F.violation("C14:only-and-exclude-agree", "only_uid and exclude_uid agree for uid %d list [%s]" % (c["R"], c["text"][:120]), wit)
    B.count("member" if c["contains"] else "nonmember")


# ------------------------------------------------------------------ in-vitro arm: lists longer than a config line (up to 200 uids)

def make_long(tr):
    rng = rng_for(PROP, "long" + tr)
    out = []
    for i in range(400 if tr == "quick" else 8000):
        R = rng.choice(UIDS)
        k = rng.choice([100, 150, 200])
        pool = [x for x in near(rng, R)]
        L = [rng.choice(pool) if rng.random() < 0.3 else rng.randrange(0, 2**32 - 1) for _ in range(k)]
        L = [x for x in L if x != R]
        contains = rng.random() < 0.5
        if contains:
            L.insert(rng.choice([0, len(L), rng.randrange(0, len(L) + 1)]), R)
        out.append(dict(id=i + 1, R=R, E=rng.choice([u for u in UIDS if u != R]), text=",".join(str(x) for x in L), contains=contains,
                        errno=rng.choice([0, 34, 22, 75])))
    return out


def long_script(c, B, s):
    from vlib.drive import Script
    s.fork(c["id"])
    s.raw("uid %d %d %d" % (c["R"], c["E"], c["R"]))
    s.raw("preerrno %d" % c["errno"])
    s.raw("vinit 0 %s %s %s" % (Script.elem(b"/bin/x"), Script.vec([b"x"]), Script.vec([b"E=1"])))
    for j, f in enumerate(FILTERS):
        s.raw("vfilter %d %s %s" % (c["id"] * 10 + j, Script.elem(f.encode()), Script.elem(c["text"].encode())))
    s.raw("vcleanup 0")
    s.endfork()


def long_check(c, evs, B):
    wit = dict(real_uid=c["R"], effective_uid=c["E"], list=c["text"][:300] + "...", list_items=c["text"].count(",") + 1)
    ch = events_of(evs, "CHILD")
    if ch and (ch[0]["signal"] or ch[0]["status"]):
        B.F.violation("C14:long-list:died", "filter call died (signal %d) with a list of %d uids" % (ch[0]["signal"], c["text"].count(",") + 1), wit)
        return
    got = {e["id"] % 10: e["ret"] for e in B.res.events if e["ev"] == "V" and e["id"] // 10 == c["id"]}
    if len(got) != 3:
        raise Harness("missing vfilter results for long-list case %d" % c["id"])
    exp = {0: c["contains"], 1: not c["contains"], 2: c["R"] == 0}
    B.count("long_lists")
    for j, f in enumerate(FILTERS):
        if bool(got[j]) != exp[j]:
            B.F.violation("C14:%s:long-list:%s" % (f, "member" if c["contains"] else "non-member"), "%s with real uid %d and a list of %d uids: %s, expected %s" % (
                f, c["R"], c["text"].count(",") + 1, "pass" if got[j] else "drop", "pass" if exp[j] else "drop"), wit)


def main():
    t0 = time.time()
    tr = tier()
    ensure_harness()
    bld = vbuild.build("plain")
    cases = make_cases(tr)
    F, tot = run_cases(PROP, bld, cases, script_fn, check_fn, batch_size=60)
    import os
    from vlib.batch import merge_findings
    from vlib.common import HBIN
    exe = vbuild.build_vitro(bld, asan=False)
    F2, tot2 = run_cases(PROP, bld, make_long(tr), long_script, long_check, batch_size=40, exe=exe, preload=[os.path.join(HBIN, "libvrec.so")])
    merge_findings(F, F2)
    tot.update(tot2)
    if (tot.get("member", 0) == 0 or tot.get("nonmember", 0) == 0) and F.n_unlisted() == 0:
        raise Harness("did not observe both member and non-member cases: %s" % tot)
    rc = F.report()
    write_evidence(PROP, "exploration", tr, dict(
        evaluations=len(cases) * 3, distinct_nontrivial=len({(c["R"], c["text"]) for c in cases}),
        rule="(real uid R from %s, unrelated euid, list L of 1..85 uids with near misses R+-1, decimal prefixes/suffixes, R+2^16, R+-2^31, duplicates) x {only_uid, exclude_uid, only_root}; distinct = (R, L)" % UIDS,
        samples=[dict(R=c["R"], E=c["E"], L=c["text"][:100]) for c in cases[:4]],
        monitor_events=tot, build=dict(variant="plain", treehash=bld.treehash), violation_keys=sorted(F.viol)),
        time.time() - t0, F.n_unlisted(),
        ["through snoopy.ini lists are limited to what one 1023-byte line carries (about 85 ten-digit uids); lists of 100..200 uids are fed to the filters directly (static archive of the same build linked into the harness)"])
    log("[C14] %d pairs %s %.1fs" % (len(cases), tot, time.time() - t0))
    return rc
