/*
 * vwriters - concurrent writers for C17: P processes x T threads, each making N wrapped (failing) exec calls whose
 * single argument is "<token>:<len>:<payload>", so that with message_format "%{cmdline}" every record is self-describing.
 * Run with LD_PRELOAD="libsnoopy.so libvrec.so".  Each process writes the (token,len) pairs it issued to <out>.<proc>.
 */
#define _GNU_SOURCE
#include <errno.h>
#include <pthread.h>
#include <sched.h>
#include <stdio.h>
#include <stdlib.h>
#include <string.h>
#include <sys/mount.h>
#include <sys/wait.h>
#include <unistd.h>

static int P = 2, T = 2, N = 100, MAXSZ = 20000;
static unsigned SEED = 1;
static const char *OUT = "issued";
static int g_proc;

/* the recorder (libvrec.so) calls this instead of exec'ing */
__attribute__((visibility("default"))) int vdrive_on_exec(const char *fn, const char *path, char *const argv[], char *const envp[], int *ret, int *err) {
    (void) fn; (void) path; (void) argv; (void) envp;
    *ret = -1;
    *err = ENOENT;
    return 0;
}

static unsigned rnd(unsigned *s) {
    *s = *s * 1103515245u + 12345u;
    return (*s >> 8) & 0xffffff;
}
static size_t pick_size(unsigned *s) {
    unsigned k = rnd(s) % 10;
    if (k < 4) return 1 + rnd(s) % 100;
    if (k < 7) return 4000 + rnd(s) % 200;      /* around the stdio buffer size */
    if (k < 8) return 8150 + rnd(s) % 100;
    if (k < 9) return 1 + rnd(s) % (MAXSZ > 1 ? MAXSZ : 1);
    return 4096 - 20 + rnd(s) % 12;
}

struct targ { int t; FILE *f; pthread_mutex_t *m; };

static void *worker(void *a) {
    struct targ *ta = a;
    unsigned s = SEED * 7919u + g_proc * 104729u + ta->t * 1299709u;
    int (*volatile p_execv)(const char *, char *const *) = execv;
    for (int i = 0; i < N; i++) {
        size_t n = pick_size(&s);
        char tok[64];
        snprintf(tok, sizeof tok, "w%d-%d-%d", g_proc, ta->t, i);
        size_t hl = strlen(tok) + 24;
        char *arg = malloc(hl + n + 1);
        int h = snprintf(arg, hl, "%s:%zu:", tok, n);
        memset(arg + h, 'a' + (i % 26), n);
        arg[h + n] = 0;
        char *argv[] = {arg, NULL};
        p_execv("/bin/vwriters-target", argv);
        pthread_mutex_lock(ta->m);
        fprintf(ta->f, "%s %zu %c\n", tok, n, 'a' + (i % 26));
        pthread_mutex_unlock(ta->m);
        free(arg);
        if ((rnd(&s) & 7) == 0) sched_yield();
    }
    return NULL;
}

int main(int argc, char **argv) {
    const char *mnt = NULL;
    for (int i = 1; i < argc; i++) {
        if (!strcmp(argv[i], "--mount")) mnt = argv[++i];
        else if (!strcmp(argv[i], "--procs")) P = atoi(argv[++i]);
        else if (!strcmp(argv[i], "--threads")) T = atoi(argv[++i]);
        else if (!strcmp(argv[i], "--records")) N = atoi(argv[++i]);
        else if (!strcmp(argv[i], "--seed")) SEED = atoi(argv[++i]);
        else if (!strcmp(argv[i], "--maxsize")) MAXSZ = atoi(argv[++i]);
        else if (!strcmp(argv[i], "--out")) OUT = argv[++i];
    }
    if (mnt) {
        char src[4096], *c;
        snprintf(src, sizeof src, "%s", mnt);
        c = strchr(src, ':');
        *c = 0;
        if (unshare(CLONE_NEWNS) || mount("none", "/", NULL, MS_REC | MS_PRIVATE, NULL) || mount(src, c + 1, NULL, MS_BIND, NULL)) {
            perror("vwriters: namespace");
            return 3;
        }
    }
    for (int p = 0; p < P; p++) {
        pid_t pid = fork();
        if (pid == 0) {
            g_proc = p;
            char fn[4096];
            snprintf(fn, sizeof fn, "%s.%d", OUT, p);
            FILE *f = fopen(fn, "w");
            if (!f) _exit(3);
            pthread_mutex_t m = PTHREAD_MUTEX_INITIALIZER;
            pthread_t th[64];
            struct targ ta[64];
            for (int t = 0; t < T; t++) {
                ta[t].t = t; ta[t].f = f; ta[t].m = &m;
                pthread_create(&th[t], NULL, worker, &ta[t]);
            }
            for (int t = 0; t < T; t++) pthread_join(th[t], NULL);
            fclose(f);
            _exit(0);
        }
    }
    int rc = 0, st;
    while (wait(&st) > 0)
        if (WIFSIGNALED(st)) { fprintf(stderr, "vwriters: writer process died of signal %d\n", WTERMSIG(st)); rc = 5; }
        else if (!WIFEXITED(st) || WEXITSTATUS(st)) { if (rc != 5) rc = 4; }
    return rc;
}
