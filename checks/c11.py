"""C11 - each call sees only the current configuration, nothing carried over.

Histories of 2..30 wrapped calls in one long-lived process; between calls snoopy.ini is rewritten from a pool covering
every option, emptied, deleted, made unreadable, replaced by a directory or corrupted.  Differential oracle: the sinks'
gain for call k must equal what the same call gives as the FIRST call of a fresh process under the same file state
(pid normalised).  Run against thread-safe and non-thread-safe builds, plain and ASan (double frees), and with the
allocator monitor: a second pass over the same history must leave no additional Snoopy allocation live.
"""
import re
import time

from vlib import build as vbuild
from vlib.batch import events_of, merge_findings, run_cases
from vlib.common import Findings, Harness, log, rng_for, short, tier, write_evidence
from vlib.drive import Script, ensure_harness, sink_bytes

PROP = "C11"
U = 12345


def pool(B):
    A, Bf, S = B.logf, B.work + "/logB", B.sock
    fmts = ['"%{cmdline}"', '"A:%{filename}"', '"[%{env:TOKV}] %{cmdline}"', '"static text"', '"%{snoopy_literal:lit}/%{cmdline}"']
    outs = ["file:" + A, "file:" + Bf, "socket:" + S, "devlog", "syslog", "stdout", "stderr", "devnull", "noop", "nosuch", "file:"]
    facs = ["LOCAL3", "DAEMON", "LOG_USER", "auth", "KERN", "bogus"]
    lvls = ["DEBUG", "EMERG", "LOG_ERR", "warning", "bogus"]
    idents = ['"snoopy"', '"id2"', '"%{snoopy_literal:tpl}"', '""']
    lens = ["255", "256", "300", "1k", "2047", "64k", "1m", "0", "junk"]
    chains = ['""', '"only_root"', '"only_uid:%d"' % U, '"exclude_uid:%d"' % U, '"noop"', '"nosuch"']
    bools = ["yes", "no", "maybe"]
    return dict(message_format=fmts, output=outs, syslog_facility=facs, syslog_level=lvls, syslog_ident=idents,
                datasource_message_max_length=lens, log_message_max_length=lens, filter_chain=chains, error_logging=bools)


def gen_conf(rng, P):
    k = rng.random()
    if k < 0.06:
        return ("delete", None)
    if k < 0.10:
        return ("empty", b"")
    if k < 0.14:
        return ("unreadable", None)
    if k < 0.17:
        return ("directory", None)
    if k < 0.22:
        return ("corrupt", rng.choice([b"[snoopy\nmessage_format = x\n", b"\xff\xfe\x00garbage", b"no section\noutput = stdout\n", b"[other]\noutput = stderr\nmessage_format=\"zzz\"\n"]))
    opts = rng.sample(list(P), rng.choice([1, 1, 2, 3, 5, len(P)]))
    lines = ["[snoopy]"]
    for o in opts:
        lines.append("%s = %s" % (o, rng.choice(P[o])))
        if rng.random() < 0.15:
            lines.append("%s = %s" % (o, rng.choice(P[o])))       # duplicate option
    # always make the outcome observable unless the step is about the default output
    if "output" not in opts and rng.random() < 0.7:
        lines.append("output = " + rng.choice(P["output"][:3]))
    if rng.random() < 0.3:
        # a damaged file: one line is a syntax error, every other line is still honoured by the parser
        lines.insert(rng.randrange(1, len(lines) + 1), rng.choice(["this line has no separator", "=", "[unterminated", "???"]))
    return ("file", ("\n".join(lines) + "\n").encode())


def make_histories(tr, n):
    rng = rng_for(PROP, tr)
    hs = []
    for h in range(n):
        steps = rng.choice([2, 2, 3, 4, 6, 10, 30 if tr == "thorough" else 12])
        hs.append(dict(id=h + 1, sub=rng.randrange(1 << 30), steps=steps))
    return hs


def build_steps(h, B):
    import random
    rng = random.Random(h["sub"])
    P = pool(B)
    out = []
    for k in range(h["steps"]):
        kind, data = gen_conf(rng, P)
        alen = rng.choice([3, 40, 260, 320, 1200, 2100])
        tok = "H%dS%d" % (h["id"], k)
        out.append(dict(kind=kind, data=data, tok=tok, argv=[tok.encode(), b"a" * alen], fn=rng.choice(["execv", "execve"])))
    return out


def emit_step(s, st, cid, conf_path_hex=None):
    k = st["kind"]
    if k == "delete":
        s.confrm()
    elif k == "unreadable":
        s.conf(b"[snoopy]\nmessage_format = \"unreadable file content must not be used\"\noutput = stderr\n")
        s.raw("confmode 000")
    elif k == "directory":
        s.raw("confdir")
    else:
        s.conf(st["data"])
    s.call(cid, st["fn"], b"/bin/" + st["tok"].encode(), st["argv"], [b"TOKV=" + st["tok"].encode()], -1, 2)


def script_fn(h, B, s):
    if not getattr(B, "logB", False):
        open(B.work + "/logB", "a").close()
        import os
        os.chmod(B.work + "/logB", 0o666)
        s.sinkfile(B.work + "/logB")
        B.logB = True
    steps = build_steps(h, B)
    base = h["id"] * 1000
    # long-lived process
    s.fork(h["id"])
    s.raw("uid %d %d %d" % (U, U, U))
    s.raw("envset " + Script.vec([b"HOME=/", b"TOKV=fromenviron"]))
    for k, st in enumerate(steps):
        emit_step(s, st, base + k)
    if getattr(B, "heap_mode", False) or True:
        s.raw("heapmark")
        for k, st in enumerate(steps):
            emit_step(s, st, base + 500 + k)
        s.raw("snap pass2")
    s.endfork()
    # reference: every step as the first call of a fresh process
    for k, st in enumerate(steps):
        s.fork(h["id"])
        s.raw("uid %d %d %d" % (U, U, U))
        s.raw("envset " + Script.vec([b"HOME=/", b"TOKV=fromenviron"]))
        emit_step(s, st, base + 100 + k)
        s.endfork()


PID_RE = re.compile(rb"\[\d+\]: ")


def norm(sinks_ev):
    out = {}
    for k, v in sinks_ev["sinks"].items():
        if k == "_" or v in ("", []):
            continue
        d = sink_bytes(sinks_ev, k)
        if isinstance(d, list):
            d = [PID_RE.sub(b"[PID]: ", x, 1) for x in d]
        out[k] = d
    return out


def check_fn(h, evs, B):
    steps = build_steps(h, B)
    base = h["id"] * 1000
    reals = {e["id"]: e for e in B.res.events if e["ev"] == "REAL" and base <= e["id"] < base + 1000}
    children = [e for e in evs if e["ev"] == "CHILD"]
    wit = dict(history=[dict(kind=st["kind"], conf=None if st["data"] is None else st["data"].decode("latin-1"), argv_len=len(st["argv"][1])) for st in steps])
    rep = None
    for ch in children:
        r = B.res.san_by_pid.get(ch["pid"])
        if r:
            from vlib.drive import san_key
            B.F.violation("C11:san:" + san_key(r), "sanitizer report during a configuration history", dict(wit, report=r[:5000]))
            return
        if ch["signal"] or ch.get("timeout"):
            B.F.violation("C11:caller-killed:sig%d" % ch["signal"], "process died (signal %d, timeout %s) during a configuration history" % (ch["signal"], ch.get("timeout")), wit)
            return
    B.count("histories")
    for k, st in enumerate(steps):
        lived = reals.get(base + k)
        fresh = reals.get(base + 100 + k)
        second = reals.get(base + 500 + k)
        if lived is None or fresh is None:
            bad = [c for c in children if c.get("status") not in (0, None) or not c.get("exited", 1)]
            if bad:
                B.F.violation("C11:caller-died:status%s" % bad[0].get("status"), "a process of the history ended abnormally (exit status %s) before step %d was made" % (bad[0].get("status"), k), dict(wit, children=bad[:3]))
                return
            raise Harness("missing REAL events for history %d step %d (children: %s)" % (h["id"], k, [(c.get("status"), c.get("signal"), c.get("timeout")) for c in children]))
        a, b = norm(lived), norm(fresh)
        B.count("steps")
        if b:
            B.count("steps_with_record")
        for tag, x in (("", a), (":second-pass", norm(second) if second else b)):
            if x != b:
                # which aspect differs?
                if set(x) != set(b):
                    what = "destination"
                else:
                    kx = sorted(x)[0]
                    dx, db = x[kx], b[kx]
                    if isinstance(dx, list) and dx and db and dx[0].split(b">", 1)[0] != db[0].split(b">", 1)[0]:
                        what = "syslog-priority"
                    elif (len(dx[0]) if isinstance(dx, list) and dx else len(dx)) != (len(db[0]) if isinstance(db, list) and db else len(db)):
                        what = "record-length(limits)"
                    else:
                        what = "record-content"
                prev = steps[k - 1]["kind"] if k else "start"
                B.F.violation("C11:carry-over:%s%s" % (what, tag), "step %d (after a %s step): long-lived process logged %s, a fresh process logs %s" % (
                    k, prev, short(repr(x), 140), short(repr(b), 140)), dict(wit, step=k, lived=repr(x)[:500], fresh=repr(b)[:500]))
                break
    snaps = [e for e in B.res.events if e["ev"] == "SNAP" and e.get("tag") == "pass2" and children and e["pid"] == children[0]["pid"]]
    if snaps and "heap" in snaps[0]:
        hp = snaps[0]["heap"]
        B.count("heap_checked")
        if hp["since_mark_snoopy"] > 0:
            B.F.violation("C11:heap-growth", "%d Snoopy allocations (%d bytes) made during the second pass over the history are still live" % (
                hp["since_mark_snoopy"], hp["since_mark_snoopy_bytes"]), dict(wit, blocks=hp["blocks"][:8]))


def main():
    t0 = time.time()
    tr = tier()
    ensure_harness()
    n = 300 if tr == "quick" else 8000
    hs = make_histories(tr, n)
    F = Findings(PROP)
    tot = {}
    builds = {}
    for v, asan, heap in (("plain", False, True), ("plain-nts", False, True), ("asan", True, False), ("asan-nts", True, False)):
        bld = vbuild.build(v)
        builds[v] = bld.treehash
        sub = hs if not asan else hs[:max(60, len(hs) // 3)]
        f, st = run_cases(PROP, bld, sub, script_fn, check_fn, batch_size=6, asan=asan, heap=heap, mtx=False)
        for k in list(f.viol):
            nk = k + "@" + ("nts" if "nts" in v else "ts")
            f.viol[nk] = f.viol.pop(k)
            f.viol[nk]["desc"] = "[%s build] %s" % (v, f.viol[nk]["desc"])
        merge_findings(F, f)
        for k, x in st.items():
            tot["%s.%s" % (v, k)] = x
    for v in builds:
        if (tot.get(v + ".steps_with_record", 0) == 0) and F.n_unlisted() == 0:
            raise Harness("no records for %s: %s" % (v, tot))
    if (tot.get("plain.heap_checked", 0) == 0) and F.n_unlisted() == 0:
        raise Harness("allocator monitor saw nothing")
    rc = F.report()
    write_evidence(PROP, "exploration", tr, dict(
        evaluations=sum(h["steps"] for h in hs), distinct_nontrivial=len(hs),
        rule="histories of 2..30 calls, config rewritten between calls from a pool covering all 9 options (valid, invalid, duplicate), or emptied / deleted / unreadable (uid 12345) / directory / corrupt; each step compared with a fresh process; second pass for heap growth; distinct = histories",
        samples=[dict(steps=h["steps"], seed=h["sub"]) for h in hs[:3]],
        monitor_events=tot, builds=builds, violation_keys=sorted(F.viol)),
        time.time() - t0, F.n_unlisted(),
        ["pid inside the devlog frame is normalised; everything else must be byte-identical",
         "histories run as uid 12345 so that an unreadable file really is unreadable"])
    log("[C11] %d histories %s %.1fs" % (len(hs), tot, time.time() - t0))
    return rc
