"""Python side of the in-vivo arm: compose case scripts, run vdrive under the preloaded library, parse event logs."""
import glob
import json
import multiprocessing
import os
import signal
import subprocess
import time

from .common import HBIN, SYSCONF, VERIF, Harness, hx, log, unhx

ASAN_OPTS = "verify_asan_link_order=0:detect_leaks=0:abort_on_error=1:handle_abort=1:allocator_may_return_null=1:malloc_context_size=12"
UBSAN_OPTS = "print_stacktrace=1:halt_on_error=1"


def ensure_harness():
    r = subprocess.run(["make", "-s", "-C", os.path.join(VERIF, "harness"), "all"], capture_output=True, text=True)
    if r.returncode != 0:
        raise Harness("harness build failed: " + (r.stdout + r.stderr)[-2000:])


class Script:
    """Builder for a vdrive case script."""

    def __init__(self):
        self.lines = []

    def raw(self, s):
        self.lines.append(s)
        return self

    def conf(self, content):
        self.lines.append("conf " + hx(content))
        return self

    def confrm(self):
        self.lines.append("confrm")
        return self

    def sinkfile(self, path):
        self.lines.append("sinkfile " + hx(path))
        return self

    @staticmethod
    def vec(v):
        """v: None -> null, [] -> empty, list of bytes/None/('rep',n,bytes)/('times',n,elem)."""
        if v is None:
            return "null"
        if v == "environ":
            return "environ"
        if len(v) == 0:
            return "empty"
        return ",".join(Script.elem(e) for e in v)

    @staticmethod
    def elem(e):
        if e is None:
            return "NULLPTR"
        if isinstance(e, tuple):
            if e[0] == "rep":
                return "rep:%d:%s" % (e[1], hx(e[2]))
            if e[0] == "times":
                return "times:%d:%s" % (e[1], Script.elem(e[2]))
        return hx(e)

    def call(self, cid, fn, path, argv, envp, ret=-1, err=2, real=False):
        p = Script.elem(path)
        if fn == "execv":
            envs = "environ"
        else:
            envs = Script.vec(envp)
        self.lines.append("call %d %s %s %s %s %s %d" % (cid, fn, p, Script.vec(argv), envs,
                                                      "real" if real else str(ret), err))
        return self

    def fork(self, tag=0):
        self.lines.append("fork %d" % tag)
        return self

    def endfork(self):
        self.lines.append("endfork")
        return self

    def text(self):
        return "\n".join(self.lines) + "\n"


def expand_elem(e):
    """bytes value of an element as vdrive will construct it."""
    if e is None:
        return None
    if isinstance(e, tuple):
        if e[0] == "rep":
            return e[2] * e[1]
        raise ValueError(e)
    return e if isinstance(e, bytes) else e.encode("latin-1")


def expand_vec(v):
    if v is None:
        return None
    out = []
    for e in v:
        if isinstance(e, tuple) and e[0] == "times":
            out.extend([expand_elem(e[2])] * e[1])
        else:
            out.append(expand_elem(e))
    return out


class Result:
    def __init__(self):
        self.events = []
        self.rc = None
        self.signal = 0
        self.timeout = False
        self.stderr = b""
        self.san = []      # sanitizer report texts
        self.logerr = None


def parse_log(path):
    evs = []
    try:
        with open(path, "rb") as f:
            for line in f:
                line = line.strip()
                if not line:
                    continue
                try:
                    evs.append(json.loads(line))
                except ValueError:
                    evs.append({"ev": "GARBLED", "raw": line[:200].decode("latin-1")})
    except FileNotFoundError:
        pass
    return evs


def sink_bytes(ev, name):
    s = ev.get("sinks", {}).get(name)
    if s is None:
        return None
    if isinstance(s, list):
        return [unhx(x) for x in s]
    if s.startswith("TRUNCATED"):
        return ("TRUNCATED", unhx(s[len("TRUNCATED"):]))
    return unhx(s)


def kill_stragglers(work):
    """SIGKILL every process whose command line mentions this run's private work directory (drivers are started with
    --work <dir>; forked cases keep that command line)."""
    me = os.getpid()
    for d in os.listdir("/proc"):
        if not d.isdigit() or int(d) == me:
            continue
        try:
            with open("/proc/%s/cmdline" % d, "rb") as f:
                cl = f.read()
        except OSError:
            continue
        if work.encode() in cl and any(x in cl for x in (b"vdrive", b"vsched", b"vthreads", b"vwriters", b"vforkstorm")):
            try:
                os.kill(int(d), signal.SIGKILL)
            except OSError:
                pass


def run_vdrive(build, script_text, work, *, asan=False, mtx=True, heap=False, timeout=120, env_extra=None,
               repo_count=True, strace=None, keep=False, exe=None, preload=None, run_as=None):
    """Runs one script in one vdrive process. `work` is a private directory (created if needed)."""
    os.makedirs(work, exist_ok=True)
    os.chmod(work, 0o777)
    confdir = os.path.join(work, "conf")
    os.makedirs(confdir, exist_ok=True)
    os.chmod(confdir, 0o777)
    spath = os.path.join(work, "script")
    lpath = os.path.join(work, "ev.log")
    with open(spath, "w") as f:
        f.write(script_text)
    if os.path.exists(lpath):
        os.unlink(lpath)
    pre = [build.lib, os.path.join(HBIN, "libvrec.so")]
    if preload is not None:
        pre = list(preload)
        mtx = heap = False
    if mtx and not asan:
        pre.append(os.path.join(HBIN, "libvmtx.so"))
    if heap and not asan:
        pre.append(os.path.join(HBIN, "libvheap.so"))
    env = {
        "PATH": "/usr/bin:/bin",
        "VREC_DEVLOG": os.path.join(work, "devlog"),
        "LD_PRELOAD": " ".join(pre),
        "TZ": "UTC",
    }
    if repo_count and preload is None:
        off = getattr(build, "_repo_off", None)
        if off is None:
            off = build.sym_offset("snoopy_tsrm_threadRepo_data")
            build._repo_off = off if off is not None else -1
        if build._repo_off is not None and build._repo_off >= 0:
            env["VDRIVE_REPO_COUNT_OFF"] = str(build._repo_off)
    if asan:
        env["ASAN_OPTIONS"] = ASAN_OPTS + ":log_path=" + os.path.join(work, "san")
        env["UBSAN_OPTIONS"] = UBSAN_OPTS + ":log_path=" + os.path.join(work, "san")
    if env_extra:
        env.update(env_extra)
    exe = exe or os.path.join(HBIN, "vdrive-asan" if asan else "vdrive")
    cmd = [exe, "--mount", "%s:%s" % (confdir, SYSCONF), "--log", lpath, "--script", spath, "--work", work]
    if strace:
        # the tracee gets the preload through -E so that strace itself stays unwrapped
        pl = env.pop("LD_PRELOAD")
        cmd = ["strace", "-f", "-E", "LD_PRELOAD=" + pl] + strace + cmd
    res = Result()
    try:
        pre = None
        if run_as:
            # drop the real/effective ids before the exec (a set-uid driver binary then starts in secure-execution mode)
            def pre():
                os.setgroups([])
                os.setgid(run_as[1])
                os.setuid(run_as[0])
        p = subprocess.Popen(cmd, env=env, cwd=work, stdin=subprocess.DEVNULL, stdout=subprocess.DEVNULL,
                             stderr=subprocess.PIPE, close_fds=True, start_new_session=True, preexec_fn=pre)
    except OSError as e:
        raise Harness("cannot start vdrive: %s" % e)
    # wait for the driver itself, not for EOF on its stderr: a hung descendant of a killed case may still hold that pipe
    try:
        p.wait(timeout=timeout)
    except subprocess.TimeoutExpired:
        res.timeout = True
        res.hang_info = hang_info(p.pid)
    try:
        os.killpg(p.pid, signal.SIGKILL)        # the driver if it hangs, and stragglers of its session in any case
    except OSError:
        pass
    # a case that made itself a session leader (setsid / ctty) escapes the group kill and may still hold the stderr pipe
    err = b""
    for attempt in range(3):
        try:
            _, err = p.communicate(timeout=3)
            break
        except subprocess.TimeoutExpired:
            kill_stragglers(work)
    else:
        try:
            p.stderr.close()
        except Exception:
            pass
    res.stderr = err or b""
    res.rc = p.returncode
    if p.returncode is not None and p.returncode < 0:
        res.signal = -p.returncode
    res.events = parse_log(lpath)
    res.san_by_pid = {}
    for f in sorted(glob.glob(os.path.join(work, "san.*"))):
        try:
            with open(f, "r", errors="replace") as fh:
                txt = fh.read()
                res.san.append(txt)
                try:
                    res.san_by_pid[int(f.rsplit(".", 1)[1])] = txt
                except ValueError:
                    pass
        except OSError:
            pass
        if not keep:
            os.unlink(f)
    if res.rc == 3:
        raise Harness("vdrive reported a harness error: " + res.stderr.decode("latin-1")[-500:])
    return res


def hang_info(pid):
    """what the process group is blocked in (for the 'parked in a blocking call' rule)."""
    info = []
    try:
        out = subprocess.run(["ps", "-o", "pid,stat,wchan:30,comm", "-g", str(pid)], capture_output=True, text=True).stdout
        info.append(out)
        for line in out.splitlines()[1:]:
            q = line.split()[0]
            for fn in ("syscall", "stack"):
                try:
                    with open("/proc/%s/%s" % (q, fn)) as f:
                        info.append("%s %s: %s" % (q, fn, f.read().strip()[:300]))
                except OSError:
                    pass
    except Exception as e:  # diagnostic only
        info.append(repr(e))
    return "\n".join(info)


def san_key(text):
    """discriminating class of a sanitizer report: kind @ first snoopy frame (function/file), line numbers stripped."""
    import re
    kind = "unknown"
    m = re.search(r"ERROR: AddressSanitizer: ([\w-]+)", text)
    if m:
        kind = m.group(1)
    else:
        m = re.search(r"runtime error: (.*)", text)
        if m:
            kind = "ubsan:" + re.sub(r"[0-9]+", "N", m.group(1))[:60]
        elif "ThreadSanitizer" in text:
            m = re.search(r"WARNING: ThreadSanitizer: ([\w -]+)", text)
            kind = "tsan:" + (m.group(1).strip() if m else "?")
    where = "?"
    for m in re.finditer(r"#\d+ 0x[0-9a-f]+ in (\S+) (\S+)", text):
        fn, loc = m.group(1), m.group(2)
        if "/src/src/" in loc or "/src/lib/inih" in loc:
            f = loc.split("/src/", 1)[1] if "/src/" in loc else loc
            f = re.sub(r":\d+(:\d+)?$", "", f.split("/src/")[-1])
            where = "%s/%s" % (fn, os.path.basename(f))
            break
    if where == "?":
        m = re.search(r"(\S+\.c):\d+:\d+: runtime error", text)
        if m:
            where = os.path.basename(m.group(1))
    return "%s@%s" % (kind, where)


# ---------------------------------------------------------------- parallel map

def _init_worker():
    signal.signal(signal.SIGINT, signal.SIG_IGN)


def pmap(func, items, nproc=16, chunksize=1):
    items = list(items)
    if not items:
        return []
    if nproc <= 1 or len(items) == 1:
        return [func(x) for x in items]
    ctx = multiprocessing.get_context("fork")
    with ctx.Pool(min(nproc, len(items)), initializer=_init_worker) as pool:
        return pool.map(func, items, chunksize)
