#!/usr/bin/env python3
"""Applies a seeded change to /repo, runs checks against it, and ALWAYS reverts /repo afterwards.

  tools/run_seeded.py <patch.diff> [--checks C01,C16] [--tier quick]

Prints, per check, the exit code and the VIOLATION / KNOWN-FINDING lines.  /repo must be clean (tracked files) before.
Evidence files written during these runs are restored from git afterwards (they describe a mutated tree).
"""
import os
import subprocess
import sys

V = os.path.dirname(os.path.dirname(os.path.abspath(__file__)))


def sh(cmd, **kw):
    return subprocess.run(cmd, shell=True, capture_output=True, text=True, **kw)


def main():
    patch = os.path.abspath(sys.argv[1])
    checks = None
    tier = "quick"
    if "--checks" in sys.argv:
        checks = sys.argv[sys.argv.index("--checks") + 1].split(",")
    if "--tier" in sys.argv:
        tier = sys.argv[sys.argv.index("--tier") + 1]
    st = sh("git -C /repo status --porcelain --untracked-files=no").stdout.strip()
    if st:
        print("refusing: /repo has uncommitted tracked changes:\n" + st)
        return 2
    r = sh("git -C /repo apply --check %s" % patch)
    if r.returncode != 0:
        print("patch does not apply to /repo HEAD: " + r.stderr[-500:])
        return 2
    sh("git -C /repo apply %s" % patch)
    results = {}
    try:
        for c in checks:
            env = dict(os.environ, VERIF_TIER=tier)
            p = subprocess.run([sys.executable, os.path.join(V, "verif.py"), "check", c], capture_output=True, text=True, env=env, cwd=V)
            lines = [l for l in p.stdout.splitlines() if l.startswith(("VIOLATION", "KNOWN-FINDING", "HARNESS-FAILURE", "  key="))]
            results[c] = (p.returncode, lines)
            print("== %s exit=%d" % (c, p.returncode))
            for l in lines[:14]:
                print("   " + l[:400])
            if p.returncode == 2:
                print("   stderr tail: " + p.stderr[-600:])
    finally:
        sh("git -C /repo checkout -- .")
        sh("git -C /repo clean -fdq -- src lib")        # files a patch may have added
        sh("git -C %s checkout -- evidence" % V)
    caught = [c for c, (rc, _) in results.items() if rc == 1]
    print("CAUGHT-BY: %s" % (",".join(caught) if caught else "none"))
    return 0 if caught else 1


if __name__ == "__main__":
    sys.exit(main())
