/*
 * vdrive - case-script driver for the in-vivo arm.
 *
 * Runs with LD_PRELOAD="libsnoopy.so libvrec.so [libvmtx.so] [libvheap.so]".  It calls execv/execve
 * exactly like an application would (so the call lands in Snoopy's wrapper), owns every sink a record
 * could go to, and appends JSON lines to an event log.  It never judges anything; oracles run offline.
 *
 * usage: vdrive --mount SRC:DST --log FILE --script FILE [--work DIR]
 */
#define _GNU_SOURCE
#include <dirent.h>
#include <grp.h>
#include <dlfcn.h>
#include <errno.h>
#include <fcntl.h>
#include <link.h>
#include <limits.h>
#include <pthread.h>
#include <sched.h>
#include <signal.h>
#include <stdarg.h>
#include <stdint.h>
#include <stdio.h>
#include <stdlib.h>
#include <string.h>
#include <sys/ioctl.h>
#include <poll.h>
#include <sys/utsname.h>
#include <sys/time.h>
#include <sys/mount.h>
#include <sys/prctl.h>
#include <sys/socket.h>
#include <sys/auxv.h>
#include <sys/resource.h>
#include <sys/stat.h>
#include <sys/syscall.h>
#include <sys/types.h>
#include <sys/un.h>
#include <sys/wait.h>
#include <termios.h>
#include <unistd.h>

extern char **environ;

#define LOGFD 199
#define MAXSINKFILES 16

static char g_conf_path[PATH_MAX];
static char g_work[PATH_MAX] = ".";
static int g_out_r = -1, g_err_r = -1, g_pty_m = -1, g_pty_s = -1, g_sock = -1, g_devlog = -1;
static char *g_sinkfile[MAXSINKFILES];
static off_t g_sinkfile_off[MAXSINKFILES];
static int g_nsinkfiles;
static int g_sample_sinks = 1;
static int g_sample_state = 1;
static long g_case_timeout_ms = 20000;
static int g_orphan_fd = -1;   /* set in an orphaned fork block: where to report a regular end */
static int g_preerrno = 0;     /* value errno holds when the wrapped call (or an in-vitro call) is entered */
static int g_automark;
static pid_t g_fifo_reader;

/* ---------------------------------------------------------------- event buffer */
static char *eb;
static size_t eb_len, eb_cap;
static void eb_reserve(size_t n) {
    if (eb_len + n + 1 > eb_cap) {
        eb_cap = (eb_len + n + 1) * 2;
        eb = realloc(eb, eb_cap);
    }
}
static void eb_printf(const char *fmt, ...) {
    va_list ap;
    char tmp[512];
    va_start(ap, fmt);
    int n = vsnprintf(tmp, sizeof tmp, fmt, ap);
    va_end(ap);
    if (n >= (int) sizeof tmp) n = sizeof tmp - 1;
    eb_reserve(n);
    memcpy(eb + eb_len, tmp, n);
    eb_len += n;
}
static void eb_hex(const void *p, size_t n) {
    static const char d[] = "0123456789abcdef";
    const unsigned char *b = p;
    eb_reserve(2 * n);
    for (size_t i = 0; i < n; i++) {
        eb[eb_len++] = d[b[i] >> 4];
        eb[eb_len++] = d[b[i] & 15];
    }
}
static void eb_flush(void) {
    size_t off = 0;
    while (off < eb_len) {
        ssize_t w = write(LOGFD, eb + off, eb_len - off);
        if (w < 0) {
            if (errno == EINTR) continue;
            break;
        }
        off += w;
    }
    eb_len = 0;
}

/* ---------------------------------------------------------------- helpers */
static uint64_t fnv(uint64_t h, const void *p, size_t n) {
    const unsigned char *b = p;
    for (size_t i = 0; i < n; i++) {
        h ^= b[i];
        h *= 1099511628211ULL;
    }
    return h;
}
#define FNV0 1469598103934665603ULL
static uint64_t hash_str(uint64_t h, const char *s) {
    if (!s) return fnv(h, "\x01N", 2);
    size_t n = strlen(s);
    h = fnv(h, &n, sizeof n);
    return fnv(h, s, n);
}
static uint64_t hash_vec(char *const v[]) {
    uint64_t h = FNV0;
    if (!v) return fnv(h, "\x02V", 2);
    for (size_t i = 0; v[i]; i++) h = hash_str(h, v[i]);
    return h;
}
static size_t vec_len(char *const v[]) {
    size_t n = 0;
    if (!v) return 0;
    while (v[n]) n++;
    return n;
}

static int hexval(int c) {
    if (c >= '0' && c <= '9') return c - '0';
    if (c >= 'a' && c <= 'f') return c - 'a' + 10;
    if (c >= 'A' && c <= 'F') return c - 'A' + 10;
    return -1;
}
/* decode "hex" | "-" | "rep:N:hex" into an exact-size malloc block (len+1, NUL terminated) */
static char *decode_bytes(const char *s, size_t *lenp) {
    size_t rep = 1;
    if (!strncmp(s, "rep:", 4)) {
        rep = strtoul(s + 4, NULL, 10);
        s = strchr(s + 4, ':');
        if (!s) {
            fprintf(stderr, "vdrive: bad rep spec\n");
            exit(3);
        }
        s++;
    }
    size_t hl = (!strcmp(s, "-")) ? 0 : strlen(s);
    size_t n = hl / 2;
    char *out = malloc(n * rep + 1);
    for (size_t i = 0; i < n; i++) out[i] = (char) ((hexval(s[2 * i]) << 4) | hexval(s[2 * i + 1]));
    for (size_t r = 1; r < rep; r++) memcpy(out + r * n, out, n);
    out[n * rep] = 0;
    if (lenp) *lenp = n * rep;
    return out;
}
/* vector spec: "null" | "empty" | elem{,elem}   elem: NULLPTR | hex | rep:N:hex | times:N:<elem> */
static char **decode_vec(const char *spec) {
    if (!strcmp(spec, "null")) return NULL;
    if (!strcmp(spec, "empty")) {
        char **v = malloc(sizeof(char *));
        v[0] = NULL;
        return v;
    }
    size_t cap = 16, n = 0;
    char **v = malloc(cap * sizeof(char *));
    char *dup = strdup(spec), *save = NULL;
    for (char *e = strtok_r(dup, ",", &save); e; e = strtok_r(NULL, ",", &save)) {
        size_t times = 1;
        if (!strncmp(e, "times:", 6)) {
            times = strtoul(e + 6, NULL, 10);
            e = strchr(e + 6, ':') + 1;
        }
        for (size_t t = 0; t < times; t++) {
            if (n + 2 > cap) {
                cap *= 2;
                v = realloc(v, cap * sizeof(char *));
            }
            if (!strcmp(e, "NULLPTR")) v[n++] = NULL;
            else v[n++] = decode_bytes(e, NULL);
        }
    }
    free(dup);
    /* exact-size block so that a sanitizer sees any read past the terminator */
    char **ex = malloc((n + 1) * sizeof(char *));
    memcpy(ex, v, n * sizeof(char *));
    ex[n] = NULL;
    free(v);
    return ex;
}

/* ---------------------------------------------------------------- sinks */
static void drain_stream(const char *name, int fd) {
    eb_printf("\"%s\":\"", name);
    if (fd >= 0) {
        char buf[65536];
        for (;;) {
            ssize_t r = read(fd, buf, sizeof buf);
            if (r <= 0) break;
            eb_hex(buf, r);
        }
    }
    eb_printf("\",");
}
static void drain_dgram(const char *name, int fd) {
    eb_printf("\"%s\":[", name);
    if (fd >= 0) {
        static char buf[2 * 1024 * 1024];
        int first = 1;
        for (;;) {
            ssize_t r = recv(fd, buf, sizeof buf, MSG_DONTWAIT | MSG_TRUNC);
            if (r < 0) break;
            eb_printf(first ? "\"" : ",\"");
            first = 0;
            eb_hex(buf, (size_t) r > sizeof buf ? sizeof buf : (size_t) r);
            eb_printf("\"");
        }
    }
    eb_printf("],");
}
static void sample_sinks(void) {
    if (!g_sample_sinks) return;
    eb_printf("\"sinks\":{");
    drain_stream("stdout", g_out_r);
    drain_stream("stderr", g_err_r);
    drain_stream("tty", g_pty_m);
    drain_dgram("sock", g_sock);
    drain_dgram("devlog", g_devlog);
    for (int i = 0; i < g_nsinkfiles; i++) {
        eb_printf("\"file%d\":\"", i);
        int fd = open(g_sinkfile[i], O_RDONLY | O_NOCTTY | O_NONBLOCK);
        if (fd >= 0) {
            struct stat st;
            if (fstat(fd, &st) == 0 && S_ISREG(st.st_mode)) {
                if (st.st_size < g_sinkfile_off[i]) {
                    eb_printf("TRUNCATED");
                    g_sinkfile_off[i] = 0;
                }
                char buf[65536];
                ssize_t r;
                while ((r = pread(fd, buf, sizeof buf, g_sinkfile_off[i])) > 0) {
                    eb_hex(buf, r);
                    g_sinkfile_off[i] += r;
                }
            }
            close(fd);
        }
        eb_printf("\",");
    }
    eb_printf("\"_\":0},");
}

/* ---------------------------------------------------------------- process-state sampling */
typedef int (*heap_snap_fn)(char *, size_t);
typedef int (*mtx_depth_fn)(void);
static heap_snap_fn p_heap_snap;
static mtx_depth_fn p_mtx_depth, p_mtx_ops;
static long g_repo_count_off = -1;
static uintptr_t g_snoopy_base;

static int phdr_cb(struct dl_phdr_info *i, size_t sz, void *d) {
    (void) sz;
    (void) d;
    if (i->dlpi_name && strstr(i->dlpi_name, "libsnoopy.so")) g_snoopy_base = i->dlpi_addr;
    return 0;
}

static void sample_fds(void) {
    eb_printf("\"fds\":\"");
    DIR *d = opendir("/proc/self/fd");
    if (d) {
        int dfd = dirfd(d);
        struct dirent *e;
        int fds[4096], n = 0;
        while ((e = readdir(d)) && n < 4096) {
            if (e->d_name[0] == '.') continue;
            int fd = atoi(e->d_name);
            if (fd == dfd || fd == LOGFD) continue;
            fds[n++] = fd;
        }
        closedir(d);
        for (int i = 0; i < n; i++)
            for (int j = i + 1; j < n; j++)
                if (fds[j] < fds[i]) {
                    int t = fds[i];
                    fds[i] = fds[j];
                    fds[j] = t;
                }
        for (int i = 0; i < n; i++) {
            char p[64], t[256];
            snprintf(p, sizeof p, "/proc/self/fd/%d", fds[i]);
            ssize_t r = readlink(p, t, sizeof t - 1);
            if (r < 0) r = 0;
            t[r] = 0;
            for (ssize_t k = 0; k < r; k++)
                if (t[k] == '"' || t[k] == '\\' || (unsigned char) t[k] < 32) t[k] = '?';
            int fl = fcntl(fds[i], F_GETFD);
            eb_printf("%d=%s%s|", fds[i], t, (fl & FD_CLOEXEC) ? "(cx)" : "");
        }
    }
    eb_printf("\",");
}

static void sample_state(void) {
    if (!g_sample_state) return;
    sample_fds();
    /* environment */
    eb_printf("\"environ_ptr\":\"%p\",\"environ_hash\":\"%016llx\",", (void *) environ,
              (unsigned long long) hash_vec(environ));
    /* cwd */
    struct stat st;
    char cwd[PATH_MAX + 1];
    if (stat(".", &st) == 0) eb_printf("\"cwd_id\":\"%llu:%llu\",", (unsigned long long) st.st_dev, (unsigned long long) st.st_ino);
    else eb_printf("\"cwd_id\":\"err%d\",", errno);
    if (syscall(SYS_getcwd, cwd, sizeof cwd) > 0) {
        eb_printf("\"cwd\":\"");
        eb_hex(cwd, strlen(cwd));
        eb_printf("\",");
    }
    mode_t um = umask(0);
    umask(um);
    eb_printf("\"umask\":%u,", (unsigned) um);
    sigset_t cur;
    sigprocmask(SIG_BLOCK, NULL, &cur);
    uint64_t mh = FNV0;
    for (int s = 1; s < 65; s++) {
        int m = sigismember(&cur, s) == 1;
        mh = fnv(mh, &m, sizeof m);
    }
    uint64_t ah = FNV0;
    for (int s = 1; s < 65; s++) {
        struct sigaction sa;
        memset(&sa, 0, sizeof sa);
        if (sigaction(s, NULL, &sa) == 0) {
            ah = fnv(ah, &sa.sa_handler, sizeof sa.sa_handler);
            ah = fnv(ah, &sa.sa_flags, sizeof sa.sa_flags);
            for (int q = 1; q < 65; q++) {
                int m = sigismember(&sa.sa_mask, q) == 1;
                ah = fnv(ah, &m, sizeof m);
            }
        }
    }
    eb_printf("\"sigmask\":\"%016llx\",\"sigact\":\"%016llx\",", (unsigned long long) mh, (unsigned long long) ah);
    /* signals pending for this thread or the process (a blocked signal the call generated and left behind is residue) */
    sigset_t pend;
    unsigned long long pm = 0;
    sigemptyset(&pend);
    sigpending(&pend);
    for (int sg = 1; sg < 65; sg++)
        if (sigismember(&pend, sg) == 1) pm |= 1ULL << (sg - 1);
    eb_printf("\"sigpend\":\"%016llx\",", pm);
    uid_t r, e, s;
    gid_t gr, ge, gs;
    getresuid(&r, &e, &s);
    getresgid(&gr, &ge, &gs);
    eb_printf("\"ids\":\"%u,%u,%u,%u,%u,%u\",", r, e, s, gr, ge, gs);
    if (p_mtx_depth) eb_printf("\"mtx_depth\":%d,\"mtx_ops\":%d,", p_mtx_depth(), p_mtx_ops ? p_mtx_ops() : -1);
    if (g_repo_count_off >= 0 && g_snoopy_base) eb_printf("\"repo_count\":%d,", *(volatile int *) (g_snoopy_base + g_repo_count_off));
    if (p_heap_snap) {
        static char hb[65536];
        int n = p_heap_snap(hb, sizeof hb);
        if (n > 0) {
            eb_reserve(n + 16);
            eb_printf("\"heap\":");
            memcpy(eb + eb_len, hb, n);
            eb_len += n;
            eb_printf(",");
        }
    }
}

/* ---------------------------------------------------------------- the recorder callback */
struct cur_call {
    int active;
    long id;
    const char *fn;
    const char *path;
    char *const *argv;
    char *const *envp;
    int passes_environ;
    int ret, err;
    int real;
    int nreal;
    uint64_t h_path, h_argv, h_envp;
};
static __thread struct cur_call cc;

/* called by libvrec.so from inside its execv/execve; returns 1 if the recorder should really exec */
__attribute__((visibility("default"))) int vdrive_on_exec(const char *fn, const char *path, char *const argv[], char *const envp[],
                                                          int *ret, int *err) {
    int saved = errno;
    static void (*noattr)(int);
    static int looked;
    if (!looked) {
        noattr = (void (*)(int)) dlsym(RTLD_DEFAULT, "vheap_noattr");
        looked = 1;
    }
    if (noattr) noattr(1);
    /* marker written before any sampling: everything between the BEGIN line and this one is the library's own work */
    eb_printf("{\"ev\":\"ENTER\",\"id\":%ld}\n", cc.id);
    eb_flush();
    cc.nreal++;
    eb_printf("{\"ev\":\"REAL\",\"id\":%ld,\"n\":%d,\"fn\":\"%s\",\"pid\":%d,\"tid\":%ld,", cc.id, cc.nreal, fn, getpid(), (long) syscall(SYS_gettid));
    eb_printf("\"same_path\":%d,\"same_argv\":%d,", path == cc.path, argv == cc.argv);
    if (!strcmp(fn, "execve")) eb_printf("\"same_envp\":%d,", envp == cc.envp);
    eb_printf("\"h_path\":\"%016llx\",\"h_argv\":\"%016llx\",\"h_envp\":\"%016llx\",",
              (unsigned long long) hash_str(FNV0, path), (unsigned long long) hash_vec(argv),
              (unsigned long long) (strcmp(fn, "execve") ? 0 : hash_vec(envp)));
    sample_sinks();
    sample_state();
    eb_printf("\"errno_in\":%d}\n", saved);
    eb_flush();
    *ret = cc.ret;
    *err = cc.err;
    if (noattr) noattr(0);
    return cc.real;
}

/* ---------------------------------------------------------------- commands */
static void write_conf(const char *hex) {
    size_t n;
    char *b = decode_bytes(hex, &n);
    unlink(g_conf_path);
    rmdir(g_conf_path);
    int fd = open(g_conf_path, O_WRONLY | O_CREAT | O_TRUNC, 0644);
    if (fd < 0) {
        fprintf(stderr, "vdrive: cannot write %s: %s\n", g_conf_path, strerror(errno));
        exit(3);
    }
    if (write(fd, b, n) != (ssize_t) n) exit(3);
    fchmod(fd, 0644);
    close(fd);
    free(b);
}

static void setup_pty(void) {
    if (g_pty_m >= 0) return;
    g_pty_m = posix_openpt(O_RDWR | O_NOCTTY | O_NONBLOCK);
    if (g_pty_m < 0) return;
    grantpt(g_pty_m);
    unlockpt(g_pty_m);
    char *n = ptsname(g_pty_m);
    g_pty_s = open(n, O_RDWR | O_NOCTTY);
    struct termios t;
    if (tcgetattr(g_pty_s, &t) == 0) {
        cfmakeraw(&t);
        tcsetattr(g_pty_s, TCSANOW, &t);
    }
}

static int bind_dgram(const char *name) {
    struct sockaddr_un a;
    int s = socket(AF_UNIX, SOCK_DGRAM | SOCK_CLOEXEC | SOCK_NONBLOCK, 0);
    memset(&a, 0, sizeof a);
    a.sun_family = AF_UNIX;
    snprintf(a.sun_path, sizeof a.sun_path, "%s/%s", g_work, name);
    unlink(a.sun_path);
    if (bind(s, (struct sockaddr *) &a, sizeof a) < 0) {
        fprintf(stderr, "vdrive: bind %s: %s\n", a.sun_path, strerror(errno));
        exit(3);
    }
    chmod(a.sun_path, 0777);
    int sz = 8 * 1024 * 1024;
    setsockopt(s, SOL_SOCKET, SO_RCVBUFFORCE, &sz, sizeof sz);
    return s;
}

/* fills the stack region the next call chain is going to use with a non-zero pattern: an automatic buffer the library
   forgets to terminate / initialise then holds 0xA5 bytes instead of whatever (often zero) happened to be there */
__attribute__((noinline)) static void dirty_stack(void) {
    volatile char junk[48 * 1024];
    for (size_t i = 0; i < sizeof junk; i += 1) junk[i] = (char) 0xA5;
    __asm__ volatile("" ::: "memory");
}

static void do_call(char **tok, int ntok) {
    /* call <id> <fn> <path> <argv> <envp> <ret|real> <errno> */
    if (ntok < 8) {
        fprintf(stderr, "vdrive: short call line\n");
        exit(3);
    }
    memset(&cc, 0, sizeof cc);
    cc.id = atol(tok[1]);
    cc.fn = tok[2];
    size_t plen;
    char *path = decode_bytes(tok[3], &plen);
    char **argv = decode_vec(tok[4]);
    char **envp;
    if (!strcmp(tok[5], "environ")) {
        envp = environ;
        cc.passes_environ = 1;
    } else envp = decode_vec(tok[5]);
    if (!strcmp(tok[6], "real")) {
        cc.real = 1;
    } else {
        cc.ret = atoi(tok[6]);
        cc.err = atoi(tok[7]);
    }
    cc.path = path;
    cc.argv = argv;
    cc.envp = envp;
    cc.active = 1;
    int is_v = !strcmp(cc.fn, "execv");
    if (g_automark) {
        void (*mk)(void) = (void (*)(void)) dlsym(RTLD_DEFAULT, "vheap_mark");
        if (mk) mk();
    }

    eb_printf("{\"ev\":\"BEGIN\",\"id\":%ld,\"fn\":\"%s\",\"pid\":%d,\"tid\":%ld,\"h_path\":\"%016llx\",\"h_argv\":\"%016llx\",\"h_envp\":\"%016llx\",",
              cc.id, cc.fn, getpid(), (long) syscall(SYS_gettid), (unsigned long long) hash_str(FNV0, path),
              (unsigned long long) hash_vec(argv), (unsigned long long) (is_v ? 0 : hash_vec(envp)));
    sample_sinks();
    sample_state();
    {
        struct timespec ts;
        clock_gettime(CLOCK_REALTIME, &ts);
        eb_printf("\"now\":%ld.%06ld,\"now_s\":%ld,\"now_us\":%lld,", (long) ts.tv_sec, ts.tv_nsec / 1000, (long) ts.tv_sec, (long long) ts.tv_sec * 1000000LL + ts.tv_nsec / 1000);
    }
    eb_printf("\"argc\":%zu}\n", vec_len(argv));
    eb_flush();

    /* glibc declares execv/execve nonnull(1,2); call through volatile pointers so the compiler can assume nothing */
    int (*volatile p_execv)(const char *, char *const *) = execv;
    int (*volatile p_execve)(const char *, char *const *, char *const *) = execve;
    dirty_stack();
    errno = g_preerrno;
    int r = is_v ? p_execv(path, argv) : p_execve(path, argv, envp);
    int e = errno;

    eb_printf("{\"ev\":\"END\",\"id\":%ld,\"ret\":%d,\"errno\":%d,\"nreal\":%d,\"h_path\":\"%016llx\",\"h_argv\":\"%016llx\",\"h_envp\":\"%016llx\",",
              cc.id, r, e, cc.nreal, (unsigned long long) hash_str(FNV0, path), (unsigned long long) hash_vec(argv),
              (unsigned long long) (is_v ? 0 : hash_vec(envp)));
    sample_sinks();
    sample_state();
    {
        struct timespec ts;
        clock_gettime(CLOCK_REALTIME, &ts);
        eb_printf("\"now\":%ld.%06ld,\"now_s\":%ld,\"now_us\":%lld,", (long) ts.tv_sec, ts.tv_nsec / 1000, (long) ts.tv_sec, (long long) ts.tv_sec * 1000000LL + ts.tv_nsec / 1000);
    }
    eb_printf("\"done\":1}\n");
    eb_flush();
    cc.active = 0;
    if (argv) {
        for (size_t i = 0; argv[i]; i++) free(argv[i]);
        /* entries after a NULLPTR hole are leaked on purpose: unreachable by contract */
        free(argv);
    }
    if (envp && !cc.passes_environ) {
        for (size_t i = 0; envp[i]; i++) free(envp[i]);
        free(envp);
    }
    free(path);
}

/* ---------------------------------------------------------------- independent oracle of the process state (C12) */
static void read_status_field(int pid, const char *key, char *out, size_t cap) {
    char p[64], line[512];
    out[0] = 0;
    snprintf(p, sizeof p, "/proc/%d/status", pid);
    FILE *f = fopen(p, "r");
    if (!f) return;
    size_t kl = strlen(key);
    while (fgets(line, sizeof line, f)) {
        if (!strncmp(line, key, kl) && line[kl] == ':') {
            char *v = line + kl + 1;
            while (*v == '\t' || *v == ' ') v++;
            size_t n = strlen(v);
            while (n && (v[n - 1] == '\n')) v[--n] = 0;
            snprintf(out, cap, "%s", v);
            break;
        }
    }
    fclose(f);
}

static void do_oracle(long id) {
    uid_t r, e, s;
    gid_t gr, ge, gs;
    getresuid(&r, &e, &s);
    getresgid(&gr, &ge, &gs);
    eb_printf("{\"ev\":\"ORACLE\",\"id\":%ld,\"ruid\":%u,\"euid\":%u,\"suid\":%u,\"rgid\":%u,\"egid\":%u,\"sgid\":%u,", id, r, e, s, gr, ge, gs);
    eb_printf("\"pid\":%ld,\"ppid\":%ld,\"sid\":%ld,\"ktid\":%ld,\"pthread\":%lu,", (long) syscall(SYS_getpid), (long) syscall(SYS_getppid),
              (long) syscall(SYS_getsid, 0), (long) syscall(SYS_gettid), (unsigned long) pthread_self());
    static char cwd[65536];
    long cr = syscall(SYS_getcwd, cwd, sizeof cwd);
    if (cr > 0) {
        eb_printf("\"cwd\":\"");
        eb_hex(cwd, strlen(cwd));
        eb_printf("\",");
    } else eb_printf("\"cwd_errno\":%d,", errno);
    struct utsname un;
    uname(&un);
    eb_printf("\"nodename\":\"");
    eb_hex(un.nodename, strlen(un.nodename));
    eb_printf("\",");
    /* stdin */
    struct termios tio;
    int isatty0 = ioctl(0, TCGETS, &tio) == 0;
    int e0 = errno;
    char lnk[4096];
    ssize_t lr = readlink("/proc/self/fd/0", lnk, sizeof lnk - 1);
    struct stat st0, stp;
    int have0 = fstat(0, &st0) == 0;
    eb_printf("\"stdin_tty\":%d,\"stdin_errno\":%d,\"stdin_open\":%d,", isatty0, isatty0 ? 0 : e0, have0);
    if (lr > 0) {
        lnk[lr] = 0;
        eb_printf("\"stdin_link\":\"");
        eb_hex(lnk, lr);
        eb_printf("\",");
        if (stat(lnk, &stp) == 0) eb_printf("\"stdin_path_uid\":%u,", stp.st_uid);
    }
    if (have0) eb_printf("\"stdin_uid\":%u,", st0.st_uid);
    /* login chain, step 1 */
    char lg[256];
    int lrc = getlogin_r(lg, sizeof lg);
    eb_printf("\"getlogin_rc\":%d,", lrc);
    if (lrc == 0) {
        eb_printf("\"getlogin\":\"");
        eb_hex(lg, strlen(lg));
        eb_printf("\",");
    }
    /* environment */
    eb_printf("\"environ_null\":%d,\"environ\":[", environ == NULL);
    size_t tot = 0;
    for (size_t i = 0; environ && environ[i]; i++) {
        size_t n = strlen(environ[i]);
        tot += n;
        if (tot > 400000) {
            eb_printf("%s\"TRUNCATED\"", i ? "," : "");
            break;
        }
        eb_printf("%s\"", i ? "," : "");
        eb_hex(environ[i], n);
        eb_printf("\"");
    }
    eb_printf("],");
    /* cgroup file */
    {
        static char cg[16384];
        int fd = open("/proc/self/cgroup", O_RDONLY);
        ssize_t n = fd >= 0 ? read(fd, cg, sizeof cg) : -1;
        if (fd >= 0) close(fd);
        eb_printf("\"cgroup\":\"");
        if (n > 0) eb_hex(cg, n);
        eb_printf("\",");
    }
    /* root process name: walk up until the parent is 1 (or 0) */
    {
        int pid = (int) syscall(SYS_getpid);
        char val[300];
        char chainbuf[2048] = "";
        const char *rp = NULL;
        for (int depth = 0; depth < 200; depth++) {
            read_status_field(pid, "PPid", val, sizeof val);
            if (!val[0]) break;
            int pp = atoi(val);
            char nm[300];
            {
                /* the name as the kernel keeps it: /proc/<pid>/comm is the raw name plus one newline (leading blanks stay) */
                char cp[64];
                snprintf(cp, sizeof cp, "/proc/%d/comm", pid);
                int cfd = open(cp, O_RDONLY);
                ssize_t cn = cfd >= 0 ? read(cfd, nm, sizeof nm - 1) : -1;
                if (cfd >= 0) close(cfd);
                if (cn < 0) cn = 0;
                nm[cn] = 0;
                if (cn > 0 && nm[cn - 1] == '\n') nm[cn - 1] = 0;
            }
            size_t cl = strlen(chainbuf);
            snprintf(chainbuf + cl, sizeof chainbuf - cl, "%s%d", cl ? "," : "", pid);
            if (pp == 1 || pp == 0) {
                static char keep[300];
                snprintf(keep, sizeof keep, "%s", nm);
                rp = keep;
                break;
            }
            pid = pp;
        }
        if (rp) {
            eb_printf("\"rpname\":\"");
            eb_hex(rp, strlen(rp));
            eb_printf("\",");
        }
        eb_printf("\"ancestry\":\"%s\",", chainbuf);
    }
    struct timespec ts;
    clock_gettime(CLOCK_REALTIME, &ts);
    eb_printf("\"now_s\":%ld,\"now_us\":%lld,\"now\":%ld.%06ld}\n", (long) ts.tv_sec, (long long) ts.tv_sec * 1000000LL + ts.tv_nsec / 1000, (long) ts.tv_sec, ts.tv_nsec / 1000);
    eb_flush();
}

#ifdef VITRO
/* ---------------------------------------------------------------- in-vitro arm: call internals of the static archive */
extern int snoopy_datasourceregistry_callByName(const char *, char *, size_t, const char *);
extern int snoopy_datasourceregistry_doesNameExist(const char *);
extern int snoopy_filterregistry_callByName(const char *, const char *);
extern int snoopy_filterregistry_doesNameExist(const char *);
extern int snoopy_outputregistry_callByName(const char *, const char *, const char *);
extern void snoopy_message_generateFromFormat(char *, size_t, size_t, const char *);
extern int snoopy_util_string_append(char *, size_t, const char *);
extern int snoopy_util_parser_strByteLength(const char *, int, int, int);
extern int snoopy_util_parser_csvToArgList(char *, char ***);
extern int snoopy_util_syslog_convertFacilityToInt(const char *);
extern int snoopy_util_syslog_convertLevelToInt(const char *);
extern int snoopy_filtering_check_chain(const char *);
extern void snoopy_init(void);
extern void snoopy_cleanup(void);
extern void snoopy_inputdatastorage_store_filename(const char *);
extern void snoopy_inputdatastorage_store_argv(char *const *);
extern void snoopy_inputdatastorage_store_envp(char *const *);

static void vitro_result(long id, const char *op, int ret, const char *buf, size_t size) {
    size_t n = buf ? strnlen(buf, size) : 0;
    eb_printf("{\"ev\":\"V\",\"id\":%ld,\"op\":\"%s\",\"ret\":%d,\"len\":%zu,\"size\":%zu,\"nul_ok\":%d,\"out\":\"", id, op, ret, n, size, buf ? n < size : 1);
    if (buf) eb_hex(buf, n > 8192 ? 8192 : n);
    eb_printf("\"}\n");
    eb_flush();
}

static int do_vitro(char **tok, int nt) {
    const char *c = tok[0];
    long id = nt > 1 ? atol(tok[1]) : 0;
    if (!strcmp(c, "vinit")) {
        snoopy_init();
        if (nt >= 5) {
            snoopy_inputdatastorage_store_filename(decode_bytes(tok[2], NULL));
            snoopy_inputdatastorage_store_argv(decode_vec(tok[3]));
            snoopy_inputdatastorage_store_envp(decode_vec(tok[4]));
        }
        return 1;
    }
    if (!strcmp(c, "vcleanup")) {
        snoopy_cleanup();
        return 1;
    }
    dirty_stack();
    errno = g_preerrno;
    if (!strcmp(c, "vds")) { /* vds id name arg size */
        char *name = decode_bytes(tok[2], NULL), *arg = decode_bytes(tok[3], NULL);
        size_t size = strtoul(tok[4], NULL, 10);
        char *buf = malloc(size);
        memset(buf, 0xAA, size);
        buf[0] = 0;
        int r = snoopy_datasourceregistry_callByName(name, buf, size, arg);
        vitro_result(id, "ds", r, buf, size);
        free(buf); free(name); free(arg);
        return 1;
    }
    if (!strcmp(c, "vfilter")) {
        char *name = decode_bytes(tok[2], NULL), *arg = decode_bytes(tok[3], NULL);
        int r = snoopy_filterregistry_callByName(name, arg);
        vitro_result(id, "filter", r, NULL, 0);
        free(name); free(arg);
        return 1;
    }
    if (!strcmp(c, "voutput")) {
        char *name = decode_bytes(tok[2], NULL), *msg = decode_bytes(tok[3], NULL), *arg = decode_bytes(tok[4], NULL);
        int r = snoopy_outputregistry_callByName(name, msg, arg);
        vitro_result(id, "output", r, NULL, 0);
        free(name); free(msg); free(arg);
        return 1;
    }
    if (!strcmp(c, "vfmt")) { /* vfmt id bufsize dsmax fmt */
        size_t size = strtoul(tok[2], NULL, 10), dsmax = strtoul(tok[3], NULL, 10);
        char *fmt = decode_bytes(tok[4], NULL);
        char *buf = malloc(size);
        memset(buf, 0xAA, size);
        buf[0] = 0;
        snoopy_message_generateFromFormat(buf, size, dsmax, fmt);
        vitro_result(id, "fmt", 0, buf, size);
        free(buf); free(fmt);
        return 1;
    }
    if (!strcmp(c, "vappend")) { /* vappend id bufsize initial append */
        size_t size = strtoul(tok[2], NULL, 10), il;
        char *ini = decode_bytes(tok[3], &il), *app = decode_bytes(tok[4], NULL);
        char *buf = malloc(size);
        memset(buf, 0xAA, size);
        memcpy(buf, ini, il + 1 <= size ? il + 1 : size);
        buf[size - 1 < il ? size - 1 : il] = 0;
        int r = snoopy_util_string_append(buf, size, app);
        vitro_result(id, "append", r, buf, size);
        free(buf); free(ini); free(app);
        return 1;
    }
    if (!strcmp(c, "vbytelen")) {
        char *t = decode_bytes(tok[2], NULL);
        int r = snoopy_util_parser_strByteLength(t, atoi(tok[3]), atoi(tok[4]), atoi(tok[5]));
        vitro_result(id, "bytelen", r, NULL, 0);
        free(t);
        return 1;
    }
    if (!strcmp(c, "vsysfac") || !strcmp(c, "vsyslvl")) {
        size_t n;
        char *t0 = decode_bytes(tok[2], &n);
        char *t = malloc(n + 1); /* exact size */
        memcpy(t, t0, n + 1);
        int r = !strcmp(c, "vsysfac") ? snoopy_util_syslog_convertFacilityToInt(t) : snoopy_util_syslog_convertLevelToInt(t);
        vitro_result(id, c + 1, r, NULL, 0);
        free(t); free(t0);
        return 1;
    }
    if (!strcmp(c, "vcsv")) {
        char *t = decode_bytes(tok[2], NULL);
        char **lst = NULL;
        int r = snoopy_util_parser_csvToArgList(t, &lst);
        uint64_t h = FNV0;
        for (int i = 0; i < r; i++) h = hash_str(h, lst[i]);
        eb_printf("{\"ev\":\"V\",\"id\":%ld,\"op\":\"csv\",\"ret\":%d,\"h\":\"%016llx\"}\n", id, r, (unsigned long long) h);
        eb_flush();
        free(lst); free(t);
        return 1;
    }
    if (!strcmp(c, "vchain")) {
        char *t = decode_bytes(tok[2], NULL);
        int r = snoopy_filtering_check_chain(t);
        vitro_result(id, "chain", r, NULL, 0);
        free(t);
        return 1;
    }
    return 0;
}
#endif

/* SIGKILL a process and everything below it (descendants found through /proc; a hung leaf of an ancestor chain would
   otherwise keep spinning after its top process is gone) */
static void kill_tree(pid_t root) {
    enum { MAXP = 8192 };
    static pid_t pids[MAXP], ppids[MAXP];
    int n = 0;
    DIR *d = opendir("/proc");
    if (d) {
        struct dirent *e;
        while ((e = readdir(d)) && n < MAXP) {
            if (e->d_name[0] < '0' || e->d_name[0] > '9') continue;
            char pth[64], buf[512];
            snprintf(pth, sizeof pth, "/proc/%s/stat", e->d_name);
            int fd = open(pth, O_RDONLY);
            if (fd < 0) continue;
            ssize_t r = read(fd, buf, sizeof buf - 1);
            close(fd);
            if (r <= 0) continue;
            buf[r] = 0;
            char *rp = strrchr(buf, ')');
            int pp = 0;
            char stc;
            if (!rp || sscanf(rp + 1, " %c %d", &stc, &pp) != 2) continue;
            pids[n] = atoi(e->d_name);
            ppids[n] = pp;
            n++;
        }
        closedir(d);
    }
    static pid_t todo[MAXP];
    int nt = 0, done = 0;
    todo[nt++] = root;
    while (done < nt) {
        pid_t cur = todo[done++];
        for (int i = 0; i < n; i++)
            if (ppids[i] == cur && nt < MAXP) todo[nt++] = pids[i];
    }
    for (int i = nt - 1; i >= 0; i--) kill(todo[i], SIGKILL);
}

static void run_script(void);
static char **g_lines;
static size_t g_nlines, g_pc;

static void load_script(FILE *f) {
    char *line = NULL;
    size_t cap = 0, lcap = 0;
    ssize_t n;
    while ((n = getline(&line, &cap, f)) >= 0) {
        while (n > 0 && (line[n - 1] == '\n' || line[n - 1] == '\r')) line[--n] = 0;
        if (g_nlines + 1 > lcap) {
            lcap = lcap ? lcap * 2 : 256;
            g_lines = realloc(g_lines, lcap * sizeof(char *));
        }
        g_lines[g_nlines++] = strdup(line);
    }
    free(line);
}

static void exec_line(char *line) {
    char *tok[16];
    int nt = 0;
    char *save = NULL;
    for (char *t = strtok_r(line, " ", &save); t && nt < 16; t = strtok_r(NULL, " ", &save)) tok[nt++] = t;
    if (nt == 0 || tok[0][0] == '#') return;
    const char *c = tok[0];
#ifdef VITRO
    if (c[0] == 'v' && do_vitro(tok, nt)) return;
#endif
    if (!strcmp(c, "conf")) write_conf(nt > 1 ? tok[1] : "-");
    else if (!strcmp(c, "confrm")) {
        unlink(g_conf_path);
        rmdir(g_conf_path);
    } else if (!strcmp(c, "confmode")) chmod(g_conf_path, strtoul(tok[1], NULL, 8));
    else if (!strcmp(c, "confdir")) {
        unlink(g_conf_path);
        mkdir(g_conf_path, 0755);
    } else if (!strcmp(c, "sinkfile")) {
        if (g_nsinkfiles < MAXSINKFILES) {
            g_sinkfile[g_nsinkfiles] = decode_bytes(tok[1], NULL);
            struct stat st;
            g_sinkfile_off[g_nsinkfiles] = (stat(g_sinkfile[g_nsinkfiles], &st) == 0 && S_ISREG(st.st_mode)) ? st.st_size : 0;
            g_nsinkfiles++;
        }
    } else if (!strcmp(c, "sinkreset")) {
        for (int i = 0; i < g_nsinkfiles; i++) free(g_sinkfile[i]);
        g_nsinkfiles = 0;
    } else if (!strcmp(c, "casetimeout")) g_case_timeout_ms = atol(tok[1]);
    else if (!strcmp(c, "automark")) g_automark = atoi(tok[1]);
    else if (!strcmp(c, "preerrno")) g_preerrno = atoi(tok[1]);
    else if (!strcmp(c, "fsize")) {
        /* file size limit with SIGXFSZ ignored: the write crossing the limit comes back short, later ones fail with EFBIG */
        struct rlimit rl = {strtoul(tok[1], NULL, 10), strtoul(tok[1], NULL, 10)};
        signal(SIGXFSZ, SIG_IGN);
        setrlimit(RLIMIT_FSIZE, &rl);
    } else if (!strcmp(c, "bindself")) {
        /* bindself <srcpath-hex> <name-hex> : bind-mount a file over /proc/<own pid>/<name> (private mount namespace) */
        char *src = decode_bytes(tok[1], NULL), *nm = decode_bytes(tok[2], NULL);
        char dst[256];
        snprintf(dst, sizeof dst, "/proc/%d/%s", getpid(), nm);
        if (mount(src, dst, NULL, MS_BIND, NULL) != 0) {
            fprintf(stderr, "vdrive: bindself %s -> %s failed: %s\n", src, dst, strerror(errno));
            exit(3);
        }
        free(src); free(nm);
    } else if (!strcmp(c, "fsizelimit")) {
        /* file size limit with SIGXFSZ left at its default disposition (fatal) */
        struct rlimit rl = {strtoul(tok[1], NULL, 10), strtoul(tok[1], NULL, 10)};
        setrlimit(RLIMIT_FSIZE, &rl);
    } else if (!strcmp(c, "nofilelimit")) {
        /* descriptor table full: soft RLIMIT_NOFILE = highest open descriptor + 1 + <extra>; lower free slots are plugged */
        int extra = atoi(tok[1]), hi = 0;
        for (int fd = 0; fd < 1024; fd++)
            if (fcntl(fd, F_GETFD) != -1) hi = fd;
        for (int fd = 0; fd < hi; fd++)
            if (fcntl(fd, F_GETFD) == -1) {
                int n = open("/dev/null", O_RDONLY);
                if (n >= 0 && n != fd) { dup2(n, fd); close(n); }
            }
        struct rlimit rl;
        getrlimit(RLIMIT_NOFILE, &rl);
        rl.rlim_cur = hi + 1 + extra;
        setrlimit(RLIMIT_NOFILE, &rl);
    } else if (!strcmp(c, "nosinks")) g_sample_sinks = 0;
    else if (!strcmp(c, "nostate")) g_sample_state = 0;
    else if (!strcmp(c, "stdin")) {
        const char *m = tok[1];
        if (!strcmp(m, "pty")) {
            setup_pty();
            dup2(g_pty_s, 0);
        } else if (!strcmp(m, "pipe")) {
            int p[2];
            if (pipe(p) == 0) {
                dup2(p[0], 0);
                close(p[0]);
                fcntl(p[1], F_SETFD, FD_CLOEXEC); /* keep writer so reads would block, not EOF */
            }
        } else if (!strcmp(m, "null")) {
            int fd = open("/dev/null", O_RDONLY);
            dup2(fd, 0);
            close(fd);
        } else if (!strcmp(m, "closed")) close(0);
    } else if (!strcmp(c, "stdinfile")) {
        char *p = decode_bytes(tok[1], NULL);
        int fd = open(p, O_RDONLY);
        if (fd < 0) {
            fprintf(stderr, "vdrive: stdinfile open failed\n");
            exit(3);
        }
        dup2(fd, 0);
        close(fd);
        free(p);
    } else if (!strcmp(c, "ctty")) {
        setup_pty();
        setsid();
        ioctl(g_pty_s, TIOCSCTTY, 0);
    } else if (!strcmp(c, "setsid")) setsid();
    else if (!strcmp(c, "envset")) {
        environ = decode_vec(nt > 1 ? tok[1] : "empty");
    } else if (!strcmp(c, "envnull")) clearenv();
    else if (!strcmp(c, "uid")) {
        if (setresuid(atol(tok[1]), atol(tok[2]), atol(tok[3])) != 0) {
            fprintf(stderr, "vdrive: setresuid failed: %s\n", strerror(errno));
            exit(3);
        }
    } else if (!strcmp(c, "gid")) {
        setgroups(0, NULL);
        if (setresgid(atol(tok[1]), atol(tok[2]), atol(tok[3])) != 0) {
            fprintf(stderr, "vdrive: setresgid failed: %s\n", strerror(errno));
            exit(3);
        }
    } else if (!strcmp(c, "chdir")) {
        char *p = decode_bytes(tok[1], NULL);
        if (chdir(p) != 0) {
            fprintf(stderr, "vdrive: chdir failed\n");
            exit(3);
        }
        free(p);
    } else if (!strcmp(c, "umask")) umask(strtoul(tok[1], NULL, 8));
    else if (!strcmp(c, "name")) {
        char *p = decode_bytes(tok[1], NULL);
        prctl(PR_SET_NAME, p);
        free(p);
    } else if (!strcmp(c, "sigblock")) {
        sigset_t s;
        sigemptyset(&s);
        sigaddset(&s, atoi(tok[1]));
        sigprocmask(SIG_BLOCK, &s, NULL);
    } else if (!strcmp(c, "sigign")) signal(atoi(tok[1]), SIG_IGN);
    else if (!strcmp(c, "closeout")) {
        /* make stdout/stderr a pipe whose reader is gone (EPIPE / SIGPIPE on write) */
        int p[2];
        if (pipe(p) == 0) {
            dup2(p[1], !strcmp(tok[1], "stdout") ? 1 : 2);
            close(p[0]);
            close(p[1]);
        }
    } else if (!strcmp(c, "orphan")) {
        /* orphan : the rest of this fork block runs in a grandchild that has lost its parent (re-parented to pid 1 or the
           nearest subreaper), in a process group of its own; this process waits for that tree to end and passes on whether
           it ended by itself (exit 0) or died / hung (exit 97 / 98) */
        int pp[2];
        if (pipe(pp) != 0) exit(3);
        fflush(NULL);
        pid_t a = fork();
        if (a == 0) {
            pid_t mid = getpid();
            pid_t p = fork();
            if (p != 0) _exit(0);
            close(pp[0]);
            setpgid(0, 0);
            pid_t me_ = getpid();
            if (write(pp[1], &me_, sizeof me_) != sizeof me_) _exit(3);
            for (int i = 0; i < 5000 && getppid() == mid; i++) usleep(1000);
            g_orphan_fd = pp[1];
            return;
        }
        close(pp[1]);
        int st_ = 0;
        while (waitpid(a, &st_, 0) < 0 && errno == EINTR) {}
        pid_t orphan = 0;
        if (read(pp[0], &orphan, sizeof orphan) != sizeof orphan) _exit(97);
        struct pollfd pf = {pp[0], POLLIN, 0};
        long budget = g_case_timeout_ms > 2000 ? g_case_timeout_ms - 1000 : g_case_timeout_ms / 2;
        char b = 0;
        int got = 0;
        for (;;) {
            int pr = poll(&pf, 1, (int) budget);
            if (pr < 0 && errno == EINTR) continue;
            if (pr <= 0) {
                kill_tree(orphan);
                kill(-orphan, SIGKILL);
                _exit(98);
            }
            ssize_t r = read(pp[0], &b, 1);
            if (r == 1) { got = 1; continue; }
            if (r < 0 && errno == EINTR) continue;
            break;
        }
        _exit(got ? 0 : 97);
    } else if (!strcmp(c, "chain")) {
        /* chain name1,name2,...,leaf : this process becomes name1 and forks name2 ... ; only the leaf returns */
        char *dup = strdup(tok[1]), *sv = NULL;
        char *names[64];
        int n = 0;
        for (char *e = strtok_r(dup, ",", &sv); e && n < 64; e = strtok_r(NULL, ",", &sv)) names[n++] = decode_bytes(e, NULL);
        for (int i = 0; i < n; i++) {
            prctl(PR_SET_NAME, names[i]);
            if (i == n - 1) break;
            fflush(NULL);
            pid_t p = fork();
            if (p != 0) {
                int st = 0;
                while (waitpid(p, &st, 0) < 0 && errno == EINTR) {}
                if (WIFSIGNALED(st)) {
                    signal(WTERMSIG(st), SIG_DFL);
                    raise(WTERMSIG(st));
                }
                _exit(WIFEXITED(st) ? WEXITSTATUS(st) : 1);
            }
        }
        free(dup);
    } else if (!strcmp(c, "oracle")) do_oracle(atol(tok[1]));
    else if (!strcmp(c, "uts")) {
        char *p = decode_bytes(tok[1], NULL);
        if (unshare(CLONE_NEWUTS) != 0 || sethostname(p, strlen(p)) != 0) {
            fprintf(stderr, "vdrive: cannot set hostname: %s\n", strerror(errno));
            exit(3);
        }
        free(p);
    } else if (!strcmp(c, "chownstdin")) {
        if (fchown(0, atol(tok[1]), (gid_t) -1) != 0) {
            fprintf(stderr, "vdrive: fchown(0) failed: %s\n", strerror(errno));
            exit(3);
        }
    } else if (!strcmp(c, "mkdirp")) {
        /* mkdirp <base> <component> <count>: create and enter base/component/component/... (count levels) */
        char *b = decode_bytes(tok[1], NULL), *cmp = decode_bytes(tok[2], NULL);
        int n = atoi(tok[3]);
        if (chdir(b) != 0) exit(3);
        for (int i = 0; i < n; i++) {
            mkdir(cmp, 0777);
            if (chdir(cmp) != 0) {
                fprintf(stderr, "vdrive: mkdirp chdir failed at level %d: %s\n", i, strerror(errno));
                exit(3);
            }
        }
        free(b);
        free(cmp);
    } else if (!strcmp(c, "rename")) {
        char *a = decode_bytes(tok[1], NULL), *b = decode_bytes(tok[2], NULL);
        if (rename(a, b) != 0) {
            fprintf(stderr, "vdrive: rename failed: %s\n", strerror(errno));
            exit(3);
        }
        free(a);
        free(b);
    } else if (!strcmp(c, "bind")) {
        char *a = decode_bytes(tok[1], NULL), *b = decode_bytes(tok[2], NULL);
        if (mount(a, b, NULL, MS_BIND, NULL) != 0) {
            fprintf(stderr, "vdrive: bind %s -> %s failed: %s\n", a, b, strerror(errno));
            exit(3);
        }
        free(a);
        free(b);
    } else if (!strcmp(c, "tmpfs")) {
        char *a = decode_bytes(tok[1], NULL);
        if (mount("tmpfs", a, "tmpfs", 0, NULL) != 0) {
            fprintf(stderr, "vdrive: tmpfs on %s failed: %s\n", a, strerror(errno));
            exit(3);
        }
        free(a);
    } else if (!strcmp(c, "writefile")) {
        size_t n;
        char *a = decode_bytes(tok[1], NULL), *d = decode_bytes(tok[2], &n);
        int fd = open(a, O_WRONLY | O_CREAT | O_TRUNC, 0644);
        if (fd < 0 || write(fd, d, n) != (ssize_t) n) {
            fprintf(stderr, "vdrive: writefile %s failed: %s\n", a, strerror(errno));
            exit(3);
        }
        close(fd);
        free(a);
        free(d);
    } else if (!strcmp(c, "fifosink")) {
        /* fifosink <fifo> <delay_ms>: create a FIFO and a reader process that opens it only after <delay_ms>, reads until
           every writer is gone and stores what it got in <fifo>.out */
        char *p = decode_bytes(tok[1], NULL);
        long delay = atol(tok[2]);
        unlink(p);
        if (mkfifo(p, 0666) != 0) {
            fprintf(stderr, "vdrive: mkfifo failed: %s\n", strerror(errno));
            exit(3);
        }
        chmod(p, 0666);
        pid_t rp = fork();
        if (rp == 0) {
            struct timespec ts = {delay / 1000, (delay % 1000) * 1000000L};
            nanosleep(&ts, NULL);
            /* non-blocking open: does not wait for a writer; a writer blocked in its own open() proceeds now */
            int fd = open(p, O_RDONLY | O_NONBLOCK);
            char outp[PATH_MAX];
            snprintf(outp, sizeof outp, "%s.out", p);
            int ofd = open(outp, O_WRONLY | O_CREAT | O_TRUNC, 0666);
            char buf[65536];
            int idle = 0, got_any = 0;
            while (fd >= 0 && idle < 14) {          /* gives up 0.7 s after the last activity (or without any writer) */
                struct pollfd pf = {fd, POLLIN, 0};
                int pr = poll(&pf, 1, 50);
                if (pr > 0 && (pf.revents & POLLIN)) {
                    ssize_t r = read(fd, buf, sizeof buf);
                    if (r > 0) {
                        if (write(ofd, buf, r) != r) break;
                        got_any = 1;
                        idle = 0;
                        continue;
                    }
                    if (r == 0 && got_any) break;    /* every writer is gone */
                } else if (pr > 0 && (pf.revents & POLLHUP) && got_any) break;
                idle++;
            }
            _exit(0);
        }
        g_fifo_reader = rp;
        free(p);
    } else if (!strcmp(c, "waitreader")) {
        if (g_fifo_reader > 0) {
            int st;
            for (int i = 0; i < 3000; i++) {
                if (waitpid(g_fifo_reader, &st, WNOHANG) == g_fifo_reader) break;
                struct timespec ts = {0, 2000000};
                nanosleep(&ts, NULL);
                if (i == 2999) kill(g_fifo_reader, SIGKILL);
            }
            g_fifo_reader = 0;
        }
    } else if (!strcmp(c, "hideproc")) {
        if (mount("tmpfs", "/proc", "tmpfs", 0, NULL) != 0) {
            fprintf(stderr, "vdrive: cannot hide /proc: %s\n", strerror(errno));
            exit(3);
        }
    } else if (!strcmp(c, "unhideproc")) {
        umount2("/proc", MNT_DETACH);
    } else if (!strcmp(c, "closefd")) close(atoi(tok[1]));
    else if (!strcmp(c, "rmdir")) {
        char *p = decode_bytes(tok[1], NULL);
        rmdir(p);
        free(p);
    }
    else if (!strcmp(c, "heapmark")) {
        void (*mk)(void) = (void (*)(void)) dlsym(RTLD_DEFAULT, "vheap_mark");
        if (mk) mk();
    } else if (!strcmp(c, "snap")) {
        eb_printf("{\"ev\":\"SNAP\",\"tag\":\"%s\",\"pid\":%d,", nt > 1 ? tok[1] : "", getpid());
        sample_sinks();
        sample_state();
        eb_printf("\"done\":1}\n");
        eb_flush();
    } else if (!strcmp(c, "confdump")) {
        /* confdump <id> name,name,... : what `snoopyctl conf` prints, through the library's own exported API */
        void (*init)(void) = (void (*)(void)) dlsym(RTLD_DEFAULT, "snoopy_entrypoint_cli_init");
        void (*fini)(void) = (void (*)(void)) dlsym(RTLD_DEFAULT, "snoopy_entrypoint_cli_exit");
        char *(*get)(const char *) = (char *(*)(const char *)) dlsym(RTLD_DEFAULT, "snoopy_configfile_optionRegistry_getOptionValueAsString");
        if (!init || !fini || !get) {
            fprintf(stderr, "vdrive: option-value API not exported by the library\n");
            exit(3);
        }
        init();
        eb_printf("{\"ev\":\"CONF\",\"id\":%ld,\"values\":{", atol(tok[1]));
        char *dup = strdup(tok[2]), *sv = NULL;
        int first = 1;
        for (char *n = strtok_r(dup, ",", &sv); n; n = strtok_r(NULL, ",", &sv)) {
            char *val = get(n);
            eb_printf("%s\"%s\":", first ? "" : ",", n);
            first = 0;
            if (val) {
                eb_printf("\"");
                eb_hex(val, strlen(val));
                eb_printf("\"");
                free(val);
            } else eb_printf("null");
        }
        free(dup);
        eb_printf("}}\n");
        eb_flush();
        fini();
    } else if (!strcmp(c, "call")) do_call(tok, nt);
    else if (!strcmp(c, "fork")) {
        /* fork <tag> : run the following lines up to "endfork" in a child */
        fflush(NULL);
        long pos_tag = nt > 1 ? atol(tok[1]) : 0;
        pid_t p = fork();
        if (p == 0) {
            run_script();
            if (g_orphan_fd >= 0 && write(g_orphan_fd, "0", 1) != 1) _exit(3);
            _exit(0);
        }
        int st = 0;
        int timed_out = 0;
        char hang[512] = "";
        /* generous per-case watchdog: a firing is reported, never judged here */
        for (long waited_ms = 0;;) {
            pid_t w = waitpid(p, &st, WNOHANG);
            if (w == p) break;
            if (w < 0 && errno != EINTR) break;
            struct timespec ts = {0, 2000000};
            nanosleep(&ts, NULL);
            waited_ms += 2;
            if (waited_ms > g_case_timeout_ms) {
                char pth[64];
                snprintf(pth, sizeof pth, "/proc/%d/syscall", p);
                int fd = open(pth, O_RDONLY);
                if (fd >= 0) {
                    ssize_t r = read(fd, hang, sizeof hang - 1);
                    if (r > 0) hang[r] = 0;
                    close(fd);
                    for (char *q = hang; *q; q++) if (*q == '\n' || *q == '"' || *q == '\\') *q = ' ';
                }
                timed_out = 1;
                kill_tree(p);
                while (waitpid(p, &st, 0) < 0 && errno == EINTR) {}
                break;
            }
        }
        /* skip the block in the parent (blocks may nest) */
        int depth = 1;
        while (g_pc < g_nlines) {
            const char *l = g_lines[g_pc++];
            if (!strncmp(l, "fork ", 5) || !strcmp(l, "fork")) depth++;
            else if (!strcmp(l, "endfork") && --depth == 0) break;
        }
        eb_printf("{\"ev\":\"CHILD\",\"tag\":%ld,\"pid\":%d,\"exited\":%d,\"status\":%d,\"signal\":%d,\"timeout\":%d,\"hang_syscall\":\"%s\",", pos_tag, p, WIFEXITED(st),
                  WIFEXITED(st) ? WEXITSTATUS(st) : -1, (WIFSIGNALED(st) && !timed_out) ? WTERMSIG(st) : 0, timed_out, hang);
        sample_sinks();
        eb_printf("\"done\":1}\n");
        eb_flush();
    } else {
        fprintf(stderr, "vdrive: unknown command %s\n", c);
        exit(3);
    }
}

static void run_script(void) {
    while (g_pc < g_nlines) {
        char *line = g_lines[g_pc++];
        if (!strcmp(line, "endfork")) return;
        char *dup = strdup(line);
        exec_line(dup);
        free(dup);
    }
}

int main(int argc, char **argv) {
    const char *mnt = NULL, *logp = NULL, *script = NULL;
    for (int i = 1; i < argc; i++) {
        if (!strcmp(argv[i], "--mount") && i + 1 < argc) mnt = argv[++i];
        else if (!strcmp(argv[i], "--log") && i + 1 < argc) logp = argv[++i];
        else if (!strcmp(argv[i], "--script") && i + 1 < argc) script = argv[++i];
        else if (!strcmp(argv[i], "--work") && i + 1 < argc) snprintf(g_work, sizeof g_work, "%s", argv[++i]);
    }
    if (!mnt || !logp || !script) {
        fprintf(stderr, "usage: vdrive --mount SRC:DST --log FILE --script FILE [--work DIR]\n");
        return 3;
    }
    char src[PATH_MAX], dst[PATH_MAX];
    const char *colon = strchr(mnt, ':');
    snprintf(src, sizeof src, "%.*s", (int) (colon - mnt), mnt);
    snprintf(dst, sizeof dst, "%s", colon + 1);
    if (unshare(CLONE_NEWNS) != 0 || mount("none", "/", NULL, MS_REC | MS_PRIVATE, NULL) != 0 ||
        mount(src, dst, NULL, MS_BIND, NULL) != 0) {
        fprintf(stderr, "vdrive: namespace setup failed: %s\n", strerror(errno));
        return 3;
    }
    snprintf(g_conf_path, sizeof g_conf_path, "%s/snoopy.ini", dst);

    int lfd = open(logp, O_WRONLY | O_CREAT | O_APPEND, 0666);
    if (lfd < 0 || dup2(lfd, LOGFD) < 0) {
        fprintf(stderr, "vdrive: cannot open log\n");
        return 3;
    }
    fchmod(LOGFD, 0666);
    if (lfd != LOGFD) close(lfd);

    FILE *f = fopen(script, "re");
    if (!f) {
        fprintf(stderr, "vdrive: cannot open script\n");
        return 3;
    }
    load_script(f);
    fclose(f);
    /* sinks: stdout and stderr become pipes we own */
    int p[2];
    if (pipe2(p, O_NONBLOCK) == 0) {
        fcntl(p[1], F_SETFL, 0);
        fcntl(p[1], F_SETPIPE_SZ, 1 << 20);
        dup2(p[1], 1);
        close(p[1]);
        g_out_r = p[0];
        fcntl(g_out_r, F_SETFD, FD_CLOEXEC);
    }
    int saved_err = dup(2);
    fcntl(saved_err, F_SETFD, FD_CLOEXEC);
    if (pipe2(p, O_NONBLOCK) == 0) {
        fcntl(p[1], F_SETFL, 0);
        fcntl(p[1], F_SETPIPE_SZ, 1 << 20);
        dup2(p[1], 2);
        close(p[1]);
        g_err_r = p[0];
        fcntl(g_err_r, F_SETFD, FD_CLOEXEC);
    }
    g_sock = bind_dgram("sock");
    g_devlog = bind_dgram("devlog");

    p_heap_snap = (heap_snap_fn) dlsym(RTLD_DEFAULT, "vheap_snapshot");
    p_mtx_depth = (mtx_depth_fn) dlsym(RTLD_DEFAULT, "vmtx_depth");
    p_mtx_ops = (mtx_depth_fn) dlsym(RTLD_DEFAULT, "vmtx_ops");
    dl_iterate_phdr(phdr_cb, NULL);
    const char *off = getenv("VDRIVE_REPO_COUNT_OFF");
    if (off) g_repo_count_off = strtol(off, NULL, 0);

    eb_printf("{\"ev\":\"START\",\"pid\":%d,\"snoopy_loaded\":%d,\"at_secure\":%lu}\n", getpid(), g_snoopy_base != 0, getauxval(AT_SECURE));
    eb_flush();
    run_script();
    eb_printf("{\"ev\":\"FINISH\",\"pid\":%d}\n", getpid());
    eb_flush();
    return 0;
}
