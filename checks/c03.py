"""C03 - logging failures never block, signal or abort the exec.

fault_enumeration with strace on the production library (plain build):
  * a baseline trace of one wrapped call per scenario gives the ordered syscalls between the driver's BEGIN and REAL
    markers (writes on fd 199); every I/O syscall in that window is then failed, one run per (syscall position, errno),
    with `strace -e inject=NAME:error=E:when=K`; a run counts only if the trace shows `(INJECTED)` inside the window.
  * natural sink states without injection: absent path, directory, unwritable (uid 12345), /dev/full, datagram socket
    with a full unread queue (socket: and devlog), stream listener, closed stdout/stderr, pipe whose reader is gone.
Oracle: the real exec is reached exactly once, the caller gets the scripted ret/errno, no signal is delivered, the
window has at most baseline+8 syscalls (no retry loop), the per-case watchdog never fires.
"""
import os
import re
import socket
import time

from vlib import build as vbuild
from vlib.batch import events_of, merge_findings, run_cases
from vlib.common import Findings, Harness, log, mkwork, rmwork, rng_for, short, tier, write_evidence
from vlib.drive import Script, ensure_harness, pmap, run_vdrive
from checks import ini_gen

PROP = "C03"
U = 12345
LINE = re.compile(r"^(?:\d+\s+)?(\w+)\((.*)$")
SIGLINE = re.compile(r"^(?:\d+\s+)?--- (SIG\w+)")
ERRNOS = {
    "openat": ["EACCES", "ENOENT", "EMFILE", "ENFILE", "EIO", "EINTR", "ENOSPC", "ELOOP", "ENOMEM"],
    "open": ["EACCES", "ENOENT", "EMFILE", "EIO"],
    "read": ["EIO", "EINTR", "EAGAIN", "EBADF", "EISDIR"],
    "pread64": ["EIO", "EINTR"],
    "write": ["ENOSPC", "EDQUOT", "EIO", "EPIPE", "EAGAIN", "EINTR", "EBADF", "EFBIG"],
    "writev": ["ENOSPC", "EIO", "EPIPE"],
    "sendto": ["EAGAIN", "ECONNREFUSED", "ENOBUFS", "EPIPE", "ENOTCONN", "EMSGSIZE", "EINTR", "ENOMEM"],
    "sendmsg": ["EAGAIN", "ECONNREFUSED", "ENOBUFS"],
    "close": ["EIO", "EINTR", "EBADF"],
    "newfstatat": ["EACCES", "ENOENT", "EIO", "ELOOP", "ENOMEM"],
    "fstat": ["EIO", "EBADF"],
    "statx": ["EACCES", "ENOENT", "EIO"],
    "lseek": ["ESPIPE", "EINVAL", "EBADF"],
    "socket": ["EMFILE", "ENFILE", "EACCES", "ENOBUFS", "EAFNOSUPPORT"],
    "connect": ["ECONNREFUSED", "ENOENT", "EACCES", "EAGAIN", "EINTR", "ETIMEDOUT", "EPROTOTYPE"],
    "ioctl": ["ENOTTY", "EIO", "EBADF"],
    "readlink": ["EACCES", "ENOENT", "EIO", "EINVAL"],
    "readlinkat": ["EACCES", "ENOENT", "EIO", "EINVAL"],
    "getcwd": ["ENOENT", "ERANGE", "EACCES"],
    "getdents64": ["EIO", "ENOENT"],
    "uname": ["EFAULT"],
    "access": ["EACCES", "ENOENT"],
    "faccessat": ["EACCES", "ENOENT"],
    "faccessat2": ["EACCES", "ENOENT"],
    "fcntl": ["EBADF", "EINVAL"],
    "poll": ["EINTR", "ENOMEM"],
    "recvfrom": ["EAGAIN", "ECONNREFUSED", "EINTR"],
    "getsockopt": ["EBADF"],
    "setsockopt": ["EBADF"],
    "getsockname": ["EBADF"],
    "bind": ["EADDRINUSE"],
    "dup": ["EMFILE"], "dup2": ["EMFILE"], "dup3": ["EMFILE"],
    "getppid": [], "getpid": [], "getuid": [], "geteuid": [], "getgid": [], "getegid": [], "gettid": [], "getsid": ["ESRCH"],
    "clock_gettime": [], "gettimeofday": [], "time": [],
}
SKIP = {"futex", "mmap", "munmap", "brk", "mprotect", "madvise", "mremap", "rt_sigaction", "rt_sigprocmask", "getrandom", "prctl", "set_robust_list",
        "rseq", "exit_group", "exit"}

ALL_FMT = " ".join("%{" + d + "}" for d in ini_gen.ALL_DS if d not in ("failure",))
SOURCES_ALONE = ["rpname", "cgroup:1", "cgroup:name=systemd", "tty", "tty_uid", "tty_username", "login", "ipaddr", "domain", "systemd_unit_name", "cwd", "hostname",
                 "username", "eusername", "group", "egroup", "env_all", "datetime", "datetime:%c", "timestamp_ms", "snoopy_threads", "cmdline"]


def scenarios(tr):
    """list of dict(name, conf (format with {W}), pre (commands), devlog)"""
    outs = [("devlog-live", "devlog", [], "live"), ("devlog-absent", "devlog", [], "absent"), ("file", "file:{W}/log", [], "live"),
            ("file-template", "file:{W}/l-%{{datetime:%Y%m%d}}-%{{pid}}.log", [], "live"), ("socket", "socket:{W}/sock", [], "live"),
            ("stdout", "stdout", [], "live"), ("stderr", "stderr", [], "live"), ("devtty-ctty", "devtty", ["ctty"], "live"),
            ("devtty-noctty", "devtty", ["setsid"], "live"), ("devnull", "devnull", [], "live")]
    fmts = [("default", None), ("all", ALL_FMT)] + [(s, "%{" + s + "}") for s in SOURCES_ALONE]
    chains = [("nochain", None), ("spawns", "exclude_spawns_of:x,y"), ("onlytty", "only_tty")]
    sc = []

    def add(o, f, c, stdin="pty"):
        conf = "[snoopy]\n"
        if f[1] is not None:
            conf += 'message_format = "%s"\n' % f[1].replace("{", "{{").replace("}", "}}")
        conf += "output = %s\n" % o[1]
        if c[1]:
            conf += 'filter_chain = "%s"\n' % c[1]
        sc.append(dict(name="%s/%s/%s" % (o[0], f[0], c[0]), conf=conf, pre=["stdin " + stdin] + o[2], devlog=o[3]))
    if tr == "quick":
        # every output with the all-sources format; every source alone with a file output; chains on two outputs
        for o in outs:
            add(o, fmts[1], chains[0])
        for f in fmts[2:]:
            add(outs[2], f, chains[0])
        add(outs[0], fmts[0], chains[0])
        add(outs[2], fmts[0], chains[1])
        add(outs[0], fmts[0], chains[2])
        add(outs[4], fmts[0], chains[1], stdin="pipe")
    else:
        for o in outs:
            for f in fmts:
                for c in chains:
                    if f[0] in ("default", "all") or c[0] == "nochain":
                        add(o, f, c)
    return sc


def parse_trace(path):
    """-> (lines, windows) ; window = list of (index, name, rest) between BEGIN and REAL marker writes; also signals"""
    with open(path, "r", errors="replace") as f:
        lines = f.read().splitlines()
    win = None
    windows = []
    counts = {}
    signals = []
    parse_trace.markers = markers = dict(REAL=0, END=None)
    for i, l in enumerate(lines):
        ms = SIGLINE.match(l)
        if ms:
            signals.append(ms.group(1) + " " + l[:120])
            continue
        m = LINE.match(l)
        if not m:
            continue
        name, rest = m.group(1), m.group(2)
        counts[name] = counts.get(name, 0) + 1
        if name == "write" and rest.startswith("199,"):
            if "(INJECTED)" in rest and "EINTR" in rest:
                continue        # the driver retries its own log write on EINTR: the same marker follows again
            if "BEGIN" in rest:
                win = []
            elif '\\"REAL\\"' in rest:
                markers["REAL"] += 1
                if win is not None:
                    windows.append(win)
                    win = None
            elif '\\"END\\"' in rest:
                me = re.search(r'ret\\":(-?\d+),\\"errno\\":(\d+)', rest)
                markers["END"] = (int(me.group(1)), int(me.group(2))) if me else "unparsed"
            continue
        if win is not None:
            win.append((counts[name], name, rest))
    if win is not None:
        windows.append(win)     # open window: REAL never came
    return lines, windows, signals, dict(markers)


def run_scn(bld, sc, work, inject=None, timeout=40):
    s = Script()
    s.raw("nosinks")
    s.raw("nostate")
    for p in sc["pre"]:
        s.raw(p)
    s.raw("envset " + Script.vec([b"HOME=/root", b"LOGNAME=lg", b"TZ=UTC", b"PATH=/bin"]))
    s.conf(sc["conf"].format(W=work).encode())
    s.call(1, "execve", b"/bin/c03", [b"c03", b"arg"], [b"E=1"], -1, 13)
    tr = os.path.join(work, "trace")
    st = ["-o", tr, "-s", "80"]
    for spec in (inject or []):
        st += ["-e", "inject=" + spec]
    env = {}
    if sc["devlog"] == "absent":
        env["VREC_DEVLOG"] = os.path.join(work, "no-such-devlog")
    res = run_vdrive(bld, s.text(), work, strace=st, timeout=timeout, mtx=False, env_extra=env)
    return res, tr


def do_scenario(arg):
    bld, sc, idx, root, tr, per_pos, npairs, seed = arg
    import random
    rng = random.Random(seed)
    work = os.path.join(root, "s%03d" % idx)
    os.makedirs(work, exist_ok=True)
    os.chmod(work, 0o777)
    open(os.path.join(work, "log"), "a").close()
    F = Findings(PROP)
    st = dict(scenarios=1, injected=0, fired=0, inconclusive=0, pairs_fired=0)
    res, trp = run_scn(bld, sc, work)
    if res.timeout or res.rc != 0:
        raise Harness("baseline of scenario %s failed (rc=%s timeout=%s): %s" % (sc["name"], res.rc, res.timeout, res.stderr[-300:]))
    lines, windows, signals, mk0 = parse_trace(trp)
    if mk0["REAL"] != 1 or mk0["END"] != (-1, 13):
        raise Harness("baseline of %s: markers %s" % (sc["name"], mk0))
    if len(windows) != 1:
        raise Harness("baseline of %s: %d windows" % (sc["name"], len(windows)))
    base = windows[0]
    nbase = len(base)
    targets = [(k, nm) for k, nm, _ in base if nm not in SKIP and ERRNOS.get(nm)]
    unknown = sorted({nm for _, nm, _ in base if nm not in SKIP and nm not in ERRNOS})
    info = dict(scenario=sc["name"], window_syscalls=nbase, injectable=len(targets), unlisted_syscalls=unknown)

    def evaluate(specs, label, fired_needed):
        res2, trp2 = run_scn(bld, sc, work, inject=specs)
        st["injected"] += 1
        lines2, win2, sig2, mk = parse_trace(trp2)
        w = win2[0] if win2 else []
        nfired = sum(1 for _, _, rest in w if "(INJECTED)" in rest)
        if nfired < fired_needed:
            st["inconclusive"] += 1
            return
        st["fired"] += 1
        wit = dict(scenario=sc["name"], config=sc["conf"].format(W=work), injection=specs, window=[("%s(%s" % (nm, rest))[:150] for _, nm, rest in w][-40:])
        cls = label
        # verdicts are read from the trace itself (the driver's marker writes are visible there even if one of them was hit by the injection)
        if res2.timeout:
            F.violation("C03:hang:%s" % cls, "%s: no progress within the watchdog after %s (%s)" % (sc["name"], specs, getattr(res2, "hang_info", "")[:300]), wit)
            return
        sigs = [x for x in sig2 if "SIGCHLD" not in x]
        if sigs or res2.signal:
            F.violation("C03:signal:%s:%s" % ((sigs[0].split()[0] if sigs else "sig%d" % res2.signal), cls), "%s: signal delivered to the caller after %s: %s" % (sc["name"], specs, sigs[:2]), wit)
            return
        if mk["REAL"] != 1:
            F.violation("C03:exec-not-reached:%s" % cls, "%s: real exec reached %d times after %s (driver rc=%s)" % (sc["name"], mk["REAL"], specs, res2.rc), wit)
            return
        if mk["END"] != (-1, 13):
            F.violation("C03:result-changed:%s" % cls, "%s: caller got %s instead of -1/EACCES after %s" % (sc["name"], mk["END"], specs), wit)
            return
        if len(w) > max(3 * nbase, nbase + 200):
            F.violation("C03:retry-loop:%s" % cls, "%s: %d syscalls in the window (baseline %d) after %s" % (sc["name"], len(w), nbase, specs), wit)

    # single faults
    ei = 0
    for k, nm in targets:
        errs = ERRNOS[nm]
        chosen = errs if per_pos == "all" else [errs[(ei + j) % len(errs)] for j in range(min(per_pos, len(errs)))]
        ei += 1
        for e in chosen:
            evaluate(["%s:error=%s:when=%d" % (nm, e, k)], "%s-%s" % (nm, e), 1)
    # persistent faults: the syscall keeps failing from position k on (a retry-until-success loop would never end).
    # `write` is left out: the driver's own marker writes use it.
    # For read and openat the fault starts at EVERY position in turn (a loop that re-reads until end-of-file only spins when the
    # file it is reading keeps failing, which "from the first read of the window on" does not reach: the configuration file is
    # read first); for the other calls at their first position.
    seen_p = set()
    for k, nm in targets:
        if nm in ("write", "close") or nm not in ("sendto", "connect", "openat", "read", "socket", "newfstatat", "ioctl", "lseek", "getcwd", "readlink"):
            continue
        if nm in seen_p and nm not in ("read", "openat"):
            continue
        first = nm not in seen_p
        seen_p.add(nm)
        # EINTR / EAGAIN are left out of the persistent kind: "interrupted - try again" is what they mean, libc itself retries on
        # them (getlogin_r reading /proc/self/loginuid does), and a call that is interrupted every single time does not exist
        lasting = [x for x in ERRNOS[nm] if x not in ("EINTR", "EAGAIN")]
        for e in (lasting[:2] if first else lasting[:1]) if per_pos != "all" else lasting:
            evaluate(["%s:error=%s:when=%d+" % (nm, e, k)], "persistent-%s-%s" % (nm, e), 1)
            st["persistent"] = st.get("persistent", 0) + 1
    # sampled pairs
    for _ in range(npairs):
        if len(targets) < 2:
            break
        (k1, n1), (k2, n2) = rng.sample(targets, 2)
        if n1 == n2:
            continue        # one -e inject clause per syscall name
        res_before = st["fired"]
        evaluate(["%s:error=%s:when=%d" % (n1, rng.choice(ERRNOS[n1]), k1), "%s:error=%s:when=%d" % (n2, rng.choice(ERRNOS[n2]), k2)], "pair", 1)
        if st["fired"] > res_before:
            st["pairs_fired"] += 1
    rmwork(work)
    return F, st, info


# ------------------------------------------------------------------ natural sink states (no injection)

def natural_cases():
    c = []

    def add(name, conf, pre=(), devlog="live", uid=0, exploratory=False):
        c.append(dict(id=len(c) + 1, name=name, conf=conf, pre=list(pre), devlog=devlog, uid=uid, exploratory=exploratory))
    for fmt in ('"%{cmdline}"', '"' + ALL_FMT.replace('"', "") + '"'):
        f = "message_format = " + fmt + "\n"
        add("file-absent-dir", f + "output = file:{W}/nodir/sub/log")
        add("file-is-directory", f + "output = file:{W}")
        add("file-unwritable", f + "output = file:{W}/rootonly", uid=U)
        add("file-dev-full", f + "output = file:/dev/full")
        add("file-dangling-symlink-dir", f + "output = file:{W}/dangling/x")
        add("socket-absent", f + "output = socket:{W}/nosock")
        add("socket-full-unread", f + "output = socket:{W}/fullsock")
        add("socket-stream-listener", f + "output = socket:{W}/streamsock")
        add("socket-is-regular-file", f + "output = socket:{W}/log")
        add("devlog-absent", f + "output = devlog", devlog="absent")
        add("devlog-full-unread", f + "output = devlog", devlog="full")
        add("stdout-closed", f + "output = stdout", pre=["closefd 1"])
        add("stderr-closed", f + "output = stderr", pre=["closefd 2"])
        add("stdout-reader-gone", f + "output = stdout", pre=["closeout stdout"])
        add("stderr-reader-gone", f + "output = stderr", pre=["closeout stderr"])
        add("devtty-no-ctty", f + "output = devtty", pre=["setsid"])
        add("config-unreadable", f + "output = file:{W}/log", pre=["confmode 000"], uid=U)
        add("stdin-closed-tty-sources", 'message_format = "%{tty} %{tty_uid} %{tty_username} %{ipaddr}"\noutput = file:{W}/log', pre=["stdin closed"])
        # /proc/<pid>/cgroup is larger than the library's small-file reader takes (10 KiB), or cannot be read at all
        add("cgroup-file-12k", 'message_format = "%{cgroup:1} %{cgroup:name=systemd} %{systemd_unit_name} %{cmdline}"\noutput = file:{W}/log', pre=["bindself-bigcgroup"])
        add("cgroup-file-is-directory", 'message_format = "%{cgroup:1} %{systemd_unit_name} %{cmdline}"\noutput = file:{W}/log', pre=["bindself-dircgroup"])
        # another process holds an advisory lock (flock) on the log file and keeps it
        add("file-flocked-by-another-process", f + "output = file:{W}/lockedlog")
        # the log file has reached the caller's own file size limit (ulimit -f): the write raises SIGXFSZ, default = fatal
        add("file-at-callers-size-limit", f + "output = file:{W}/bigfile", pre=["fsizelimit 67108864"])
        # the caller's descriptor table is full (0, 1 and 2 free slots): every open/socket/fopen fails with EMFILE
        for extra in (0, 1, 2):
            add("fd-table-full+%d-file" % extra, f + "output = file:{W}/log", pre=["nofilelimit %d" % extra])
            add("fd-table-full+%d-devlog" % extra, f + "output = devlog", pre=["nofilelimit %d" % extra])
        add("cwd-deleted", 'message_format = "%{cwd}"\noutput = file:{W}/log', pre=["chdir-deleted"])
    return c


def nat_script(c, B, s):
    if not getattr(B, "prepared", False):
        B.prepared = True
        w = B.work
        open(os.path.join(w, "rootonly"), "w").close()
        os.chmod(os.path.join(w, "rootonly"), 0o600)
        os.symlink(os.path.join(w, "nowhere"), os.path.join(w, "dangling"))
        fs = socket.socket(socket.AF_UNIX, socket.SOCK_DGRAM)
        fs.bind(os.path.join(w, "fullsock"))
        os.chmod(os.path.join(w, "fullsock"), 0o777)
        snd = socket.socket(socket.AF_UNIX, socket.SOCK_DGRAM)
        snd.setblocking(False)
        try:
            while True:
                snd.sendto(b"x" * 2000, os.path.join(w, "fullsock"))
        except OSError:
            pass
        ls = socket.socket(socket.AF_UNIX, socket.SOCK_STREAM)
        ls.bind(os.path.join(w, "streamsock"))
        ls.listen(1)
        os.makedirs(os.path.join(w, "gone"), exist_ok=True)
        with open(os.path.join(w, "bigcgroup"), "wb") as cf:
            cf.write(b"".join(b"%d:controller%d:/a/deeply/nested/control/group/path/number/%d/of/many\n" % (200 - i, i, i) for i in range(200)))
        open(os.path.join(w, "hostsdir-file"), "wb").close()
        os.chmod(os.path.join(w, "hostsdir-file"), 0o000)
        with open(os.path.join(w, "bigfile"), "wb") as bf:
            bf.truncate(67108864)           # sparse, exactly at the limit the state sets
        os.chmod(os.path.join(w, "bigfile"), 0o666)
        import fcntl
        lk = open(os.path.join(w, "lockedlog"), "ab")
        os.chmod(os.path.join(w, "lockedlog"), 0o666)
        fcntl.flock(lk, fcntl.LOCK_EX)
        B.keep = (fs, snd, ls, lk)
    s.fork(c["id"])
    s.raw("stdin pty")
    s.raw("envset " + Script.vec([b"HOME=/root", b"LOGNAME=lg", b"TZ=UTC"]))
    s.conf(("[snoopy]\n" + c["conf"].replace("{W}", B.work) + "\n").encode())
    for p in c["pre"]:
        if p == "bindself-bigcgroup":
            s.raw("bindself %s %s" % (os.path.join(B.work, "bigcgroup").encode().hex(), b"cgroup".hex()))
        elif p == "bindself-dircgroup":
            s.raw("bindself %s %s" % (os.path.join(B.work, "hostsdir-file").encode().hex(), b"cgroup".hex()))
        elif p == "chdir-deleted":
            d = os.path.join(B.work, "gone", "d%d" % c["id"])
            os.makedirs(d, exist_ok=True)
            s.raw("chdir " + d.encode().hex())
            s.raw("rmdir " + d.encode().hex())
        else:
            s.raw(p)
    if c["uid"]:
        s.raw("uid %d %d %d" % (c["uid"], c["uid"], c["uid"]))
    # several calls in a row: sinks with a bounded queue (listen backlog, datagram queue) only bite after a few messages
    for k in range(7):
        s.call(c["id"] + 1000 * (k + 1), "execve", b"/bin/nat", [b"nat", b"warm%d" % k], [b"E=1"], -1, 13)
    s.call(c["id"], "execve", b"/bin/nat", [b"nat", b"x"], [b"E=1"], -1, 13)
    s.endfork()


def nat_check(c, evs, B):
    wit = dict(state=c["name"], config=c["conf"])
    ch = events_of(evs, "CHILD")
    B.count("natural_states")
    if not ch:
        raise Harness("no CHILD event for natural case %s" % c["name"])
    ch = ch[0]
    if ch.get("timeout"):
        B.F.violation("C03:hang:natural:%s" % c["name"], "sink state %s: call blocked (%s)" % (c["name"], ch.get("hang_syscall")), wit)
        return
    if ch["signal"]:
        B.F.violation("C03:signal:sig%d:natural:%s" % (ch["signal"], c["name"]), "sink state %s: caller killed by signal %d inside the wrapper" % (c["name"], ch["signal"]), wit)
        return
    real = events_of(evs, "REAL")
    end = events_of(evs, "END")
    if len(real) != 1:
        B.F.violation("C03:exec-not-reached:natural:%s" % c["name"], "sink state %s: real exec reached %d times" % (c["name"], len(real)), wit)
        return
    if not end or (end[0]["ret"], end[0]["errno"]) != (-1, 13):
        B.F.violation("C03:result-changed:natural:%s" % c["name"], "sink state %s: caller got %s" % (c["name"], end[:1]), wit)
        return
    B.count("natural_ok")


def main():
    t0 = time.time()
    tr = tier()
    ensure_harness()
    bld = vbuild.build("plain")
    rng = rng_for(PROP, tr)
    scs = scenarios(tr)
    root = mkwork("c03")
    per_pos = 1 if tr == "quick" else "all"
    npairs = 6 if tr == "quick" else 40
    jobs = [(bld, sc, i, root, tr, per_pos, npairs, rng.randrange(1 << 30)) for i, sc in enumerate(scs)]
    F = Findings(PROP)
    tot = {}
    infos = []
    for f, st, info in pmap(do_scenario, jobs, 16):
        merge_findings(F, f)
        for k, v in st.items():
            tot[k] = tot.get(k, 0) + v
        infos.append(info)
    rmwork(root)
    # natural states, each variant run with devlog live / absent / full
    nat = natural_cases()
    for dv in ("live", "absent", "full"):
        sub = [c for c in nat if c["devlog"] == dv]
        if not sub:
            continue
        env = {"absent": {"VREC_DEVLOG": "no-such-devlog"}, "full": {"VREC_DEVLOG": "fullsock"}}.get(dv)   # relative to the batch directory
        f, st = run_cases(PROP, bld, sub, nat_script, nat_check, batch_size=len(sub), nproc=1, mtx=False, env=env)
        merge_findings(F, f)
        for k, v in st.items():
            tot[k] = tot.get(k, 0) + v
    if (tot.get("fired", 0) == 0 or tot.get("natural_states", 0) == 0) and F.n_unlisted() == 0:
        raise Harness("nothing observed: %s" % tot)
    if (tot["inconclusive"] > tot["injected"] // 20) and F.n_unlisted() == 0:
        raise Harness("too many injections missed their window: %s" % tot)
    rc = F.report()
    unlisted = sorted({u for i in infos for u in i["unlisted_syscalls"]})
    write_evidence(PROP, "fault_enumeration", tr, dict(
        evaluations=tot["fired"] + tot["natural_states"], distinct_nontrivial=tot["fired"] + tot["natural_states"],
        rule="per scenario (output x format x chain) every I/O syscall position between wrapper entry and the real exec is failed with %s errno(s) from a per-syscall table, plus sampled two-fault runs; only runs whose strace log shows (INJECTED) inside the window count; plus natural sink states; all distinct by construction" % ("one rotating" if per_pos == 1 else "every"),
        samples=infos[:4] + [dict(natural=[c["name"] for c in nat[:19]])],
        monitor_events=tot, scenarios=[i["scenario"] for i in infos], window_sizes=[i["window_syscalls"] for i in infos],
        syscalls_seen_but_not_injected=unlisted, errno_table={k: v for k, v in ERRNOS.items() if v},
        build=dict(variant="plain", treehash=bld.treehash), violation_keys=sorted(F.viol)),
        time.time() - t0, F.n_unlisted(),
        ["strace error injection skips the syscall and returns the errno (measured); when=K counts per syscall name from process start",
         "bounded progress: watchdog 20 s per call is inconclusive-by-design only when /proc shows progress; a firing with the process parked in one syscall is a hang",
         "allocation failure is outside the domain: mmap/brk are never failed"])
    log("[C03] %s %.1fs" % (tot, time.time() - t0))
    return rc
