"""C06 - cmdline and filename describe the current call only.

Histories of 2..50 consecutive calls in ONE driver process (same thread), records taken from a datagram socket output
(exact framing for any byte).  Every call carries a unique token in its path and in each argument; record k must be
filename_k <US> cmdline_k (prefix rule above the limit, path fallback for NULL/empty argv) and contain no token of any
other call.  Run against the thread-safe and the non-thread-safe build, and under ASan.
"""
import time

from vlib import build as vbuild
from vlib.batch import events_of, merge_findings, run_cases
from vlib.common import Findings, Harness, log, rng_for, short, tier, write_evidence
from vlib.drive import Script, ensure_harness, expand_vec, sink_bytes
from checks.format_model import cmdline_text

PROP = "C06"
US = b"\x1f"


def gen_call(rng, tok, ds):
    t = tok.encode()
    kind = rng.choice(["null", "empty", "one", "few", "emptystrs", "ctrl", "spaces", "8bit", "long-at", "long-far", "many", "short", "percent"])
    if kind == "null":
        argv = None
    elif kind == "empty":
        argv = []
    elif kind == "one":
        argv = [t]
    elif kind == "short":
        argv = [b"s", t[-3:]]
    elif kind == "few":
        argv = [t] + [t + b"-" + bytes([97 + i]) * rng.randrange(0, 20) for i in range(rng.randrange(1, 6))]
    elif kind == "emptystrs":
        argv = [t, b"", b"", t + b"x", b""]
    elif kind == "ctrl":
        argv = [t, bytes(range(1, 32)), b"\n\r\t", t + b"\x7f"]
    elif kind == "spaces":
        argv = [t, b" ", b"a  b", b"  ", t]
    elif kind == "8bit":
        argv = [t, bytes(range(128, 256)), b"\xff" + t]
    elif kind == "percent":
        argv = [t, b"+%s", b"100%%", b"%d %x %c", b"%", b"%5$s", b"%%%", t + b"%10s|%-5d|%.3f"]
    elif kind == "long-at":
        # total length around the data source limit +-2
        tgt = ds + rng.choice([-2, -1, 0, 1, 2])
        argv = [t, ("rep", max(1, tgt - len(t) - 1 - len(t) - 1), b"L"), t]
    elif kind == "long-far":
        argv = [t, ("rep", ds * rng.choice([2, 5]), b"F"), t + b"-tail"]
    else:
        n = rng.choice([50, 500, 5000])
        argv = [t, ("times", n, t + b"-m")]
    pk = rng.choice(["tok", "tok", "tok", "long", "8bit", "empty"])
    if pk == "tok":
        path = b"/bin/" + t
    elif pk == "long":
        path = ("rep", (ds + rng.choice([-1, 0, 1, 300])) // 16 + 1, b"/" + t[:15].ljust(15, b"p"))
    elif pk == "8bit":
        path = b"/\xe4\xf6\xfc/" + t
    else:
        path = b""
    fn = rng.choice(["execv", "execve"])
    return dict(tok=tok, fn=fn, argv=argv, path=path, kind=kind, pk=pk)


def make_histories(tr, n):
    rng = rng_for(PROP, tr)
    hs = []
    for h in range(n):
        ds = rng.choice([2047, 2047, 255, 300, 4096])
        ncalls = rng.choice([2, 2, 3, 5, 8, 20, 50]) if tr == "thorough" else rng.choice([2, 2, 3, 5, 8, 20])
        calls = []
        for k in range(ncalls):
            calls.append(gen_call(rng, "T%05dk%02dz" % (h, k), ds))
        # force the pattern long -> short somewhere
        if ncalls >= 2 and rng.random() < 0.6:
            i = rng.randrange(0, ncalls - 1)
            calls[i] = gen_call_forced(rng, calls[i]["tok"], ds, "long-far")
            calls[i + 1] = gen_call_forced(rng, calls[i + 1]["tok"], ds, rng.choice(["short", "null", "empty", "one"]))
        hs.append(dict(id=h + 1, ds=ds, calls=calls))
    return hs


def gen_call_forced(rng, tok, ds, kind):
    for _ in range(200):
        c = gen_call(rng, tok, ds)
        if c["kind"] == kind:
            return c
    return gen_call(rng, tok, ds)


def script_fn(h, B, s):
    conf = ("[snoopy]\ndatasource_message_max_length = %d\nlog_message_max_length = 1048575\nmessage_format = \"%%{filename}\x1f%%{cmdline}\"\noutput = socket:%s\n" % (h["ds"], B.sock)).encode("latin-1")
    s.fork(h["id"])
    s.conf(conf)
    for k, c in enumerate(h["calls"]):
        s.call(h["id"] * 1000 + k, c["fn"], c["path"], c["argv"], [b"E=" + c["tok"].encode()], -1, 2)
    s.endfork()


def check_fn(h, evs, B):
    ids = {h["id"] * 1000 + k: k for k in range(len(h["calls"]))}
    reals = {e["id"]: e for e in B.res.events if e["ev"] == "REAL" and e["id"] in ids}
    child = [e for e in evs if e["ev"] == "CHILD"]
    wit = dict(history=[dict(tok=c["tok"], fn=c["fn"], kind=c["kind"], path=c["pk"]) for c in h["calls"]], ds=h["ds"])
    if child and child[0]["signal"]:
        B.F.violation("C06:caller-killed:sig%d" % child[0]["signal"], "caller died with signal %d during a history" % child[0]["signal"], wit)
        return
    if getattr(B, "timeout", False):
        return
    alltoks = [c["tok"].encode() for c in h["calls"]]
    for cid, k in ids.items():
        c = h["calls"][k]
        r = reals.get(cid)
        if r is None:
            raise Harness("no REAL event for call %d" % cid)
        dg = sink_bytes(r, "sock")
        B.count("calls")
        argv = expand_vec(c["argv"])
        path = expand_vec([c["path"]])[0]
        exp_cmd = cmdline_text(path, argv)
        exp_fn = path
        if len(dg) != 1:
            if len(dg) == 0 and (len(exp_cmd) + len(exp_fn) > 150000):
                B.count("too_big_for_datagram")
                continue
            B.F.violation("C06:record-count=%d" % len(dg), "call %d of history produced %d records" % (k, len(dg)), wit)
            continue
        rec = dg[0]
        B.count("records")
        if US not in rec:
            B.F.violation("C06:separator-missing", "record lacks the format's separator: %s" % short(rec), wit)
            continue
        got_fn, got_cmd = rec.split(US, 1)
        ds = h["ds"]
        for what, got, exp in (("filename", got_fn, exp_fn), ("cmdline", got_cmd, exp_cmd)):
            if len(exp) <= ds:
                if got != exp:
                    B.F.violation("C06:%s-wrong:%s" % (what, "fallback" if what == "cmdline" and c["kind"] in ("null", "empty") else "fits"),
                                  "call %d (%s/%s): %s is %s, expected %s" % (k, c["kind"], c["pk"], what, short(got), short(exp)), wit)
                else:
                    B.count("exact")
            else:
                B.count("over_limit")
                if len(got) > ds:
                    B.F.violation("C06:%s-over-limit" % what, "%s has %d bytes, limit %d" % (what, len(got), ds), wit)
                elif not exp.startswith(got):
                    B.F.violation("C06:%s-not-a-prefix" % what, "call %d: %s %s is not a prefix of %s" % (k, what, short(got[-60:]), short(exp)), wit)
        for t in alltoks:
            if t != c["tok"].encode() and t in rec:
                B.F.violation("C06:foreign-token", "record of call %d (%s) contains token %s of another call" % (k, c["tok"], t.decode()), wit)
                break


def main():
    t0 = time.time()
    tr = tier()
    ensure_harness()
    n = 400 if tr == "quick" else 10000
    hs = make_histories(tr, n)
    F = Findings(PROP)
    tot = {}
    variants = [("plain", False), ("plain-nts", False), ("asan", True)] + ([("asan-nts", True)] if tr == "thorough" else [])
    builds = {}
    for v, asan in variants:
        bld = vbuild.build(v)
        builds[v] = bld.treehash
        sub = hs if not asan else hs[:max(100, len(hs) // 4)]
        f, st = run_cases(PROP, bld, sub, script_fn, check_fn, batch_size=10, asan=asan, mtx=not asan)
        for k in list(f.viol):
            f.viol[k]["desc"] = "[%s build] " % v + f.viol[k]["desc"]
        merge_findings(F, f)
        for k, x in st.items():
            tot["%s.%s" % (v, k)] = x
    for v, _ in variants:
        if (tot.get(v + ".records", 0) == 0) and F.n_unlisted() == 0:
            raise Harness("no records observed for variant %s: %s" % (v, tot))
    rc = F.report()
    ncalls = sum(len(h["calls"]) for h in hs)
    write_evidence(PROP, "exploration", tr, dict(
        evaluations=ncalls, distinct_nontrivial=len(hs),
        rule="histories of 2..50 calls in one process (long->short forced in 60%%), argv kinds: null/empty/one/few/empty strings/control bytes/spaces/8-bit/around the limit +-2/far above/50..5000 args; distinct = histories (each has unique tokens)",
        samples=[dict(ds=h["ds"], calls=[(c["fn"], c["kind"], c["pk"]) for c in h["calls"]][:8]) for h in hs[:3]],
        monitor_events=tot, builds=builds, violation_keys=sorted(F.viol)),
        time.time() - t0, F.n_unlisted(),
        ["records are taken from the socket output (one datagram per record)", "above the limit only 'is a prefix, at most limit bytes' is asserted"])
    log("[C06] %d histories / %d calls %s %.1fs" % (len(hs), ncalls, tot, time.time() - t0))
    return rc
