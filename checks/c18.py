"""C18 - snoopyctl enable adds exactly one entry and preserves the file.

The real snoopyctl of the working tree is run on every generated ld.so.preload content (exhaustive over a line alphabet
for small files + random larger files); the file bytes / exit status / `status` output are compared with preload_model.
"""
import os
import time

from vlib import build as vbuild
from vlib.common import Findings, Harness, log, mkwork, rmwork, rng_for, short, tier, write_evidence
from vlib.drive import pmap
from checks import preload_common as pc

PROP = "C18"


def check_file(ctl, name, content, F, st):
    P = ctl.P
    stale = pc.stale_for(name, content, P)
    closed, link = pc.variant_for(name)
    ctl.put(content, stale, link)
    st["closed_fds"] = st.get("closed_fds", 0) + (closed is not None)
    st["symlinked"] = st.get("symlinked", 0) + (link is not None and content is not None)
    st["stale_tmp"] = st.get("stale_tmp", 0) + (stale is not None)
    rc1, out1, err1 = ctl.run("enable", closed)
    new1 = ctl.get()
    st["runs"] += 1
    acc = pc.enable_expected(content, P)
    cls = "zero" if rc1 == 0 else "nonzero"
    wit = dict(file=name, started_without_fds=closed, symlink=link, stale_tmp=None if stale is None else stale.decode("latin-1"), content=None if content is None else content.decode("latin-1"), rc=rc1,
               result=None if new1 is None else new1.decode("latin-1"), stderr=err1.decode("latin-1")[-300:])
    ok = any((new1 == a or (a is None and new1 in (None, b""))) and cls == c for a, c in acc)
    if not ok:
        c = pc.classify(content or b"", P)
        if new1 == content or (content is None and new1 is None):
            kind = "refused" if rc1 != 0 else "noop-exit0"
            why = "comment-only-mentions" if not (c["foreign"] or c["own_elsewhere"] or c["trailing_only"] or c["own"]) else "other"
            if why == "comment-only-mentions":
                lines = [l for l, _ in pc.split_lines(content or b"") if pc.is_comment_line(l) and pc.LIBNAME in l]
                sub = "indented-comment" if any(l[:1] in b" \t" for l in lines) and not any(l.count(pc.LIBNAME) > 1 and l[:1] == b"#" for l in lines) else "comment-with-several-mentions"
                key = "C18:%s:%s" % (kind, sub)
            else:
                key = "C18:%s:unexpected" % kind
            F.violation(key, "enable left the file unchanged with exit %d although no active line mentions the library (file %s)" % (rc1, name), wit)
        else:
            exp = acc[-1][0]
            if new1 is not None and exp is not None and new1.startswith(content or b"") is False:
                key = "C18:old-content-not-preserved"
            elif new1 is not None and exp is not None and new1.count(P) > (content or b"").count(P) + 1:
                key = "C18:entry-added-more-than-once"
            else:
                key = "C18:wrong-result"
            F.violation(key, "enable produced %r (exit %d), acceptable: %r (file %s)" % (short(new1 or b"", 120), rc1,
                        [(short(a or b"", 120), c) for a, c in acc], name), wit)
        return
    if rc1 == 0 and new1 != content:
        st["appended"] += 1
    elif rc1 == 0:
        st["already"] += 1
    else:
        st["refused"] += 1
    # idempotence
    rc2, _, _ = ctl.run("enable")
    new2 = ctl.get()
    st["runs"] += 1
    if rc1 == 0 and (new2 != new1 or rc2 != 0):
        F.violation("C18:not-idempotent", "second enable changed the file or failed (exit %d) (file %s)" % (rc2, name),
                    dict(wit, second=None if new2 is None else new2.decode("latin-1")))
    # status afterwards
    if rc1 == 0:
        rc3, out3, err3 = ctl.run("status")
        st["runs"] += 1
        first = out3.split(b"\n", 1)[0]
        cl = pc.classify(new1 or b"", P)
        n_active = len(cl["own"]) + len(cl["foreign"]) + len(cl["own_elsewhere"]) + len(cl["trailing_only"])
        if n_active >= 2 and rc3 != 0 and b"Multiple Snoopy references" in err3:
            # several active lines mention the library: status reports that instead of a verdict (the repo's own
            # cli-action-status-ld.so.preload-dupe test demands it); the property does not say otherwise
            st["status_multiple"] = st.get("status_multiple", 0) + 1
        elif b"OK - Snoopy is enabled" not in first or first.startswith(b"/etc/ld.so.preload:            NOT"):
            F.violation("C18:status-disagrees", "after a successful enable, status says %r (exit %d) (file %s)" % (first[:120], rc3, name),
                        dict(wit, status=out3.decode("latin-1")[:400], status_err=err3.decode("latin-1")[-300:]))


def worker(arg):
    bld, files, wi, root = arg
    work = os.path.join(root, "w%03d" % wi)
    os.makedirs(work, exist_ok=True)
    ctl = pc.Ctl(bld, work)
    F = Findings(PROP)
    st = dict(runs=0, appended=0, already=0, refused=0)
    for name, content in files:
        check_file(ctl, name, content, F, st)
    return F, st


def gen_files(P, tr, prop):
    files = list(pc.enumerate_files(P, 3 if tr == "quick" else 4))
    rng = rng_for(prop, tr)
    nr = 2000 if tr == "quick" else 50000
    files += [pc.random_file(rng, P) for _ in range(nr)]
    # large files (the loader reads any size; 10 KiB, 64 KiB and 1 MiB are typical internal buffer sizes)
    for kb in ((10, 11, 65, 200) if tr == "quick" else (9, 10, 11, 63, 64, 65, 200, 1100, 4200)):
        for own in ("absent", "first", "middle", "last"):
            lines = []
            i = 0
            while sum(len(x) + 1 for x in lines) < kb * 1024:
                lines.append(b"/opt/vendor/lib/libvendor-%06d.so" % i if i % 7 else b"# vendor block %d" % i)
                i += 1
            if own == "first":
                lines.insert(0, P)
            elif own == "middle":
                lines.insert(len(lines) // 2, P)
            elif own == "last":
                lines.append(P)
            term = rng.random() < 0.7
            files.append(("large-%dk-own-%s/%s" % (kb, own, "T" if term else "U"), b"\n".join(lines) + (b"\n" if term else b"")))
    return files


def merge(results, F, tot):
    for f, st in results:
        for k, v in f.viol.items():
            if k in F.viol:
                F.viol[k]["count"] += v["count"]
            else:
                F.viol[k] = v
        for k, v in st.items():
            tot[k] = tot.get(k, 0) + v


def main():
    t0 = time.time()
    tr = tier()
    bld = vbuild.build("plain")
    P = bld.lib.encode()
    files = gen_files(P, tr, PROP)
    root = mkwork("c18")
    nw = 16
    chunks = [(bld, files[i::nw * 4], i, root) for i in range(nw * 4)]
    F = Findings(PROP)
    tot = {}
    merge(pmap(worker, chunks, nw), F, tot)
    rmwork(root)
    if (tot.get("appended", 0) == 0 or tot.get("refused", 0) == 0 or tot.get("already", 0) == 0) and F.n_unlisted() == 0:
        raise Harness("monitor did not observe all three enable outcomes: %s" % tot)
    rc = F.report()
    distinct = len({c for _, c in files})
    write_evidence(PROP, "exploration", tr, dict(
        evaluations=len(files), distinct_nontrivial=distinct,
        rule="all files of <=%d lines over an alphabet of %d line kinds, each newline-terminated and unterminated, plus absent/empty, plus random files of <=40 lines; distinct = distinct byte contents" % (3 if tr == "quick" else 4, len(pc.alphabet(P))),
        exhaustive_small_files=True,
        samples=[dict(file=n, content=None if c is None else c.decode("latin-1")) for n, c in files[:2] + files[500:503] + files[-2:]],
        monitor_events=tot, build=dict(variant="plain", treehash=bld.treehash), violation_keys=sorted(F.viol)),
        time.time() - t0, F.n_unlisted(),
        ["snoopyctl honours SNOOPY_TEST_LD_SO_PRELOAD_PATH / SNOOPY_TEST_LIBSNOOPY_SO_PATH exactly as for /etc/ld.so.preload",
         "comment line = first non-blank character is '#' (DESIGN A.3)"])
    log("[C18] %d files, %s, %.1fs" % (len(files), tot, time.time() - t0))
    return rc
