"""C10 - exec in a forked child of a multithreaded process never deadlocks.

fault_enumeration over fork points: victim thread(s) of the parent are stopped at their k-th stop point inside a wrapped
call - right after each lock acquisition (inside the critical section) and right after each unlock - for every k of one
call (discovered dynamically); another thread forks; the child makes a wrapped exec call (directly, after forking again,
or from a new thread).  Oracle: the child's call reaches the real exec and the child exits (verdict from the child's
state: parked in futex/wait with no progress over three samples = deadlock, never from timing alone), its record is
there, and the released victims finish their own calls.
"""
import json
import os
import subprocess
import time

from vlib import build as vbuild
from vlib.common import Findings, Harness, HBIN, SYSCONF, log, mkwork, rmwork, rng_for, tier, write_evidence
from vlib.drive import kill_stragglers, ensure_harness, pmap

PROP = "C10"
FMT = '%{filename}|%{cmdline}|%{tid_kernel}|%{snoopy_threads}'


def run_fork(arg):
    bld, stop_at, kind, victims, out, child_kind, root, idx = arg[:8]
    heap = len(arg) > 8 and arg[8]          # C16's fork arm: allocator monitor loaded, child reports Snoopy's live blocks
    extra = arg[9] if len(arg) > 9 else ""  # further config lines (C16: options given twice)
    work = os.path.join(root, "f%04d" % idx)
    conf = os.path.join(work, "conf")
    os.makedirs(conf, exist_ok=True)
    logp = os.path.join(work, "log")
    outspec = {"file": "file:" + logp, "devlog": "devlog", "socket": "socket:" + os.path.join(work, "nosock"), "stdout": "stdout"}[out]
    with open(os.path.join(conf, "snoopy.ini"), "w") as f:
        f.write('[snoopy]\n%smessage_format = "%s"\noutput = %s\n' % (extra, FMT, outspec))
    env = {"PATH": "/usr/bin:/bin", "LD_PRELOAD": "%s %s" % (bld.lib, os.path.join(HBIN, "libvrec.so")), "VREC_DEVLOG": os.path.join(work, "nodevlog")}
    if heap:
        env["LD_PRELOAD"] += " " + os.path.join(HBIN, "libvheap.so")
        env["VSCHED_CHILDHEAP"] = os.path.join(work, "childheap")
    try:
        r = subprocess.run([os.path.join(HBIN, "vsched"), "--mount", "%s:%s" % (conf, SYSCONF), "--mode", "fork", "--log", logp, "--calls", "1",
                            "--victims", str(victims), "--stop-at", str(stop_at), "--stop-kind", kind, "--child-kind", str(child_kind)],
                           env=env, capture_output=True, timeout=120, cwd=work)
    except subprocess.TimeoutExpired:
        kill_stragglers(work)
        return dict(harness_timeout=1, arg=arg[1:6])
    kill_stragglers(work)           # a deadlocked child or grandchild of the scenario must not outlive it
    ev = None
    for line in r.stdout.splitlines():
        try:
            e = json.loads(line)
            if e.get("ev") == "FORK":
                ev = e
        except ValueError:
            pass
    if ev is None:
        return dict(no_event=1, rc=r.returncode, stderr=r.stderr.decode("latin-1")[-300:], arg=arg[1:6])
    ev["out"] = out
    if heap:
        try:
            with open(os.path.join(work, "childheap")) as f:
                hp = json.loads(f.read())
                ev["child_heap"] = hp["snoopy_live"]
                ev["child_bad_frees"] = hp.get("snoopy_bad_frees", 0)
                ev["child_bad_free_bt"] = hp.get("bad_free_bt", [])
                ev["child_blocks"] = hp["blocks"]
        except (OSError, ValueError):
            ev["child_heap"] = None
    import shutil
    shutil.rmtree(work, ignore_errors=True)
    return ev


def main():
    t0 = time.time()
    tr = tier()
    ensure_harness()
    bld = vbuild.build("plain")
    rng = rng_for(PROP, tr)
    root = mkwork("c10")
    # discover the stop points of one call
    probe = run_fork((bld, 99999, "in-lock", 1, "file", 0, root, 0))
    if "points_seen" not in probe or probe["points_seen"] < 4:
        raise Harness("could not discover stop points: %s" % probe)
    npoints = probe["points_seen"]
    jobs = []
    idx = 1
    base = [(k, "any") for k in range(1, npoints + 1)]
    for k, kind in base:                                   # every point, simplest scenario
        jobs.append((bld, k, kind, 1, "file", 0, root, idx)); idx += 1
    outs = ["file", "devlog", "socket", "stdout"]
    extra = []
    for k, kind in base:
        for victims in (1, 2, 3):
            for out in outs:
                for ck in (0, 1, 2):
                    if (victims, out, ck) != (1, "file", 0):
                        extra.append((k, kind, victims, out, ck))
    rng.shuffle(extra)
    for (k, kind, victims, out, ck) in extra[: (80 if tr == "quick" else 3000)]:
        jobs.append((bld, k, kind, victims, out, ck, root, idx)); idx += 1
    results = pmap(run_fork, jobs, 12)
    rmwork(root)
    F = Findings(PROP)
    tot = dict(scenarios=0, valid=0, in_lock=0, after_unlock=0, child_completed=0, inconclusive=0, not_parked=0)
    samples = []
    for job, ev in zip(jobs, results):
        tot["scenarios"] += 1
        if ev.get("harness_timeout") or ev.get("no_event"):
            tot["inconclusive"] += 1
            log("[C10] inconclusive scenario: %s" % (ev,))
            continue
        if ev["parked"] < 1:
            tot["not_parked"] += 1
            continue
        tot["valid"] += 1
        kind_ = ev["stop_kind"]
        if kind_.startswith("io:"):
            tot["at_io"] = tot.get("at_io", 0) + 1
            tot.setdefault("_io_kinds", set()).add(kind_)
        else:
            tot["in_lock" if kind_ == "in-lock" else "after_unlock"] += 1
        wit = {k: v for k, v in ev.items() if k != "records"}
        wit["records"] = ev["records"][:6]
        desc = "victims=%d stopped %s at point %d, output=%s, child variant %d" % (ev["victims"], ev["stop_kind"], ev["stop_at"], ev["out"], ev["child_kind"])
        if len(samples) < 5:
            samples.append(dict(scenario=desc, child_done=ev["child_done"], victims_done=ev["victims_done"]))
        if not ev["child_done"]:
            if ev["child_blocked_samples"] >= 3:
                F.violation("C10:child-deadlock:%s" % ev["stop_kind"].replace("io:", "at-io-"), "child of fork never finished its exec call: blocked in syscall %s (%s)" % (ev["child_syscall"][:40], desc), wit)
            else:
                tot["inconclusive"] += 1
            continue
        if ev["child_reached_end"] not in ("C", "G", "T") or ev["child_status"] != 0:
            F.violation("C10:child-died", "child exited with %s before finishing its exec call (%s)" % (ev["child_status"], desc), wit)
            continue
        tot["child_completed"] += 1
        if ev["out"] == "file":
            want = {0: "CHILDz", 1: "GRANDCHILDz", 2: "CHILDTHREADz"}[ev["child_kind"]]
            recs = [r for r in ev["records"] if r.startswith("/bin/" + want + "|")]
            if len(recs) != 1:
                F.violation("C10:child-record-count=%d" % len(recs), "child's call produced %d records (%s)" % (len(recs), desc), wit)
            elif recs[0].split("|")[-1] != "1":
                tot["child_saw_parent_threads_registered"] = tot.get("child_saw_parent_threads_registered", 0) + 1     # informational: not part of the property
        if ev["victims_done"] != ev["victims"]:
            F.violation("C10:parent-thread-stuck", "%d of %d parent threads finished after the fork (%s)" % (ev["victims_done"], ev["victims"], desc), wit)
        if ev["problem"]:
            F.violation("C10:" + ev["problem"].split(":")[0], "%s (%s)" % (ev["problem"], desc), wit)
    if (tot["in_lock"] == 0 or tot["after_unlock"] == 0 or tot.get("at_io", 0) == 0) and F.n_unlisted() == 0:
        raise Harness("fork points not reached: %s" % tot)
    if (tot["inconclusive"] > max(2, tot["scenarios"] // 50)) and F.n_unlisted() == 0:
        raise Harness("too many inconclusive scenarios: %s" % tot)
    io_kinds = sorted(tot.pop("_io_kinds", set()))
    tot["io_stop_kinds"] = io_kinds
    rc = F.report()
    write_evidence(PROP, "fault_enumeration", tr, dict(
        evaluations=tot["valid"], distinct_nontrivial=tot["valid"],
        rule="one scenario per stop point k of %d in one wrapped call (right after each lock acquisition, right after each unlock, right before each open/write/close/socket/send/flock/fopen/fclose the library issues) with 1 victim/file output/direct exec, plus sampled (k, kind) x victims 1..3 x output {file,devlog,socket,stdout} x child {exec, fork-again-then-exec, exec from a new thread}; a scenario counts only if the victim really parked there" % npoints,
        samples=samples, stop_points_per_call=npoints, monitor_events=tot,
        build=dict(variant="plain", treehash=bld.treehash), violation_keys=sorted(F.viol)),
        time.time() - t0, F.n_unlisted(),
        ["fork points are taken at Snoopy's own synchronisation operations (after each lock acquisition / unlock); a fork at an arbitrary instruction inside a critical section is equivalent to one right after the acquisition for the inherited-lock question",
         "deadlock verdict = child not finished and three /proc/<pid>/syscall samples show it parked in futex/wait4; a slow child is inconclusive"])
    log("[C10] %s %.1fs" % (tot, time.time() - t0))
    return rc
