"""C15 - exclude_spawns_of drops exactly descendants of listed programs.

The driver builds a process chain of depth 1..12 (fork + prctl(PR_SET_NAME) per level, parents wait), the leaf makes the
wrapped call under filter_chain = exclude_spawns_of:<list>.  Oracle: logged  <=>  no ANCESTOR (parent or higher, not the
leaf itself) carries a kernel name that is in the list - the ancestor set is the generated chain plus the real ancestors
of the driver read from /proc.  With the process tree unreadable (/proc hidden inside the driver's private mount
namespace) the call must be logged whatever the list says.
"""
import time

from vlib import build as vbuild
from vlib.batch import events_of, run_cases
from vlib.common import Findings, Harness, log, rng_for, short, tier, write_evidence
from vlib.drive import Script, ensure_harness, sink_bytes
from checks.c07 import ancestor_names

PROP = "C15"
ABOVE = ancestor_names()            # names of the python worker, its ancestors, and "vdrive"


def pid1_name():
    try:
        with open("/proc/1/stat", "rb") as f:
            st = f.read()
        return st[st.index(b"(") + 1:st.rindex(b")")]
    except OSError:
        return None


PID1 = pid1_name()

NAME_POOL = [b"", b"alpha", b"alph", b"alphab", b"a", b"with space", b"two  spaces", b"(paren)", b"par)en", b"pa(ren", b"))((", b"fifteen-bytes-xx", b"fifteen-bytes-xxyz",
             b"x" * 15, b"x" * 14, b"UPPER", b"upper", b"dot.name", b"dash-name", b"tab\there", b"trail ", b" lead", b"0", b"12345", b"name:colon", b"cron", b"sshd",
             b"systemd", b"init", b"S", b"R (x) S", b") R 1 ("]


def kname(n):
    return n[:15]


def make_cases(tr):
    rng = rng_for(PROP, tr)
    n = 2000 if tr == "quick" else 20000
    cases = []
    for i in range(n):
        depth = rng.randrange(1, 13)
        chain = [rng.choice(NAME_POOL) for _ in range(depth)]
        leaf = rng.choice(NAME_POOL)
        mode = rng.choice(["match-ancestor", "match-ancestor", "no-match", "only-leaf", "prefix-only", "above", "hidden", "pid1", "two-instances"])
        anc = [kname(x) for x in chain]
        others = [x for x in NAME_POOL if kname(x) not in anc and kname(x) != kname(leaf) and x.decode("latin-1") not in ABOVE]
        lst = [rng.choice(others) for _ in range(rng.randrange(0, 6))]
        if mode in ("match-ancestor", "hidden"):
            pos = rng.randrange(0, depth)
            lst.insert(rng.randrange(0, len(lst) + 1), anc[pos])
        elif mode == "only-leaf":
            if kname(leaf) in anc:
                continue
            lst.insert(rng.randrange(0, len(lst) + 1), kname(leaf))
        elif mode == "prefix-only":
            a = anc[rng.randrange(0, depth)]
            cand = [a[:-1], a + b"x", a[1:], a.upper() if a.upper() != a else a.lower()]
            cand = [c for c in cand if c and c not in anc and c.decode("latin-1") not in ABOVE and len(c) <= 15]
            lst += cand
        elif mode == "above":
            lst.append(rng.choice(sorted(ABOVE)).encode("latin-1"))
        elif mode == "pid1":
            if PID1 is None or b"," in PID1:
                continue
            lst = [x for x in lst if x.decode("latin-1") not in ABOVE] + [PID1]     # the only listed ancestor is the init process itself
        elif mode == "two-instances":
            pos = rng.randrange(0, depth)
            second = [anc[pos]]
        if not lst:
            lst = [rng.choice(others)]
        # list items cannot carry the separators of the chain / list / config syntax
        if any(b"," in x or b";" in x or b'"' in x for x in lst):
            continue
        if rng.random() < 0.3:
            lst = lst + [lst[0]]                         # duplicates
        if rng.random() < 0.2:
            lst.insert(rng.randrange(0, len(lst) + 1), b"")     # empty items
        if len(lst) > 50:
            lst = lst[:50]
        text = b",".join(lst)
        if len(text) > 900 or text.startswith(b" ") or text.endswith(b" ") or b"\t" in text[-1:]:
            continue
        # a priming call with a different list is made first in the same (leaf) process: the decision must follow the list
        # of the call being made, not whatever an earlier evaluation saw
        prime = [rng.choice(others)] if (set(kname(x) for x in lst) & set(anc)) or mode in ("above", "pid1") else [anc[rng.randrange(0, depth)]]
        if any(b"," in x or b";" in x or b'"' in x for x in prime):
            prime = [b"zzz-nomatch"]
        c = dict(id=len(cases) + 1, chain=chain, leaf=leaf, lst=lst, text=text, mode=mode, depth=depth, prime=b",".join(prime))
        if mode == "two-instances":
            if any(b"," in x or b";" in x or b'"' in x for x in second):
                continue
            c["second"] = second[0]
        cases.append(c)
    return cases


def script_fn(c, B, s):
    chain = b"exclude_spawns_of:" + c["text"]
    if c.get("second") is not None:
        chain += b";exclude_spawns_of:" + c["second"]          # two instances of the filter in one chain
    conf = b"[snoopy]\nmessage_format = \"M%d\"\noutput = socket:%s\nfilter_chain=\"%s\"\n" % (c["id"], B.sock.encode(), chain)
    s.fork(c["id"])
    if c["mode"] == "hidden":
        s.raw("nostate")
        s.raw("hideproc")
    s.raw("chain " + ",".join((x.hex() or "-") for x in c["chain"] + [c["leaf"]]))
    s.conf(b"[snoopy]\nmessage_format = \"P%d\"\noutput = devnull\nfilter_chain=\"exclude_spawns_of:%s\"\n" % (c["id"], c["prime"]))
    s.call(c["id"] + 5000000, "execve", b"/bin/prime", [b"prime"], [b"E=1"], -1, 2)
    s.conf(conf)
    s.call(c["id"], "execve", b"/bin/l%d" % c["id"], [b"leaf"], [b"E=1"], -1, 2)
    s.endfork()
    if c["mode"] == "hidden":
        s.raw("unhideproc")


def check_fn(c, evs, B):
    wit = dict(ancestors=[x.decode("latin-1") for x in c["chain"]], leaf=c["leaf"].decode("latin-1"), list=c["text"].decode("latin-1"), mode=c["mode"], real_ancestors_above=sorted(ABOVE))
    ch = events_of(evs, "CHILD")
    if ch and (ch[0]["signal"] or ch[0].get("timeout")):
        B.F.violation("C15:caller-killed:sig%d" % ch[0]["signal"], "process chain died (signal %d)" % ch[0]["signal"], wit)
        return
    real = events_of(evs, "REAL")
    if len(real) != 1:
        raise Harness("REAL events %d for case %d (child %s)" % (len(real), c["id"], ch))
    dg = sink_bytes(real[0], "sock")
    logged = dg == [b"M%d" % c["id"]]
    if not logged and dg != []:
        B.F.violation("C15:unexpected-record", "datagrams %r" % dg[:2], wit)
        return
    # ancestors from the leaf upwards: chain reversed, then the harness's real ancestors.  A process without a name cannot be
    # matched against anything; what a walk does once it meets one is left open (everything above it is "may or may not count")
    upward = [kname(x) for x in reversed(c["chain"])]
    nameless = upward.index(b"") if b"" in upward else None
    names = set(upward if nameless is None else upward[:nameless])
    above_nameless = set() if nameless is None else (set(upward[nameless + 1:]) | {a.encode("latin-1") for a in ABOVE})
    if nameless is None:
        names |= {a.encode("latin-1") for a in ABOVE}
    items = {x for x in c["lst"] if x != b""}
    if c.get("second") is not None:
        items.add(c["second"])
    if c["mode"] == "hidden":
        want = True
    else:
        want = not (names & items)
    B.count("logged" if logged else "dropped")
    B.count("mode:" + c["mode"])
    if c["mode"] != "hidden" and want and (above_nameless & items):
        B.count("open_above_nameless_ancestor")
        return
    if logged != want:
        if c["mode"] == "hidden":
            key = "dropped-although-tree-unreadable"
        elif logged:
            hit = sorted(names & items)[0]
            key = "listed-ancestor-not-dropped:" + ("truncated-15" if len(hit) == 15 else ("special-chars" if any(ch_ in hit for ch_ in b" ()") else "plain"))
        else:
            key = "dropped-without-listed-ancestor:" + c["mode"]
        B.F.violation("C15:" + key, "chain %s -> leaf %r, list %r: %s, expected %s" % ([short(x, 20) for x in c["chain"]], c["leaf"], short(c["text"], 100),
                                                                                       "logged" if logged else "dropped", "logged" if want else "dropped"), wit)


def main():
    t0 = time.time()
    tr = tier()
    ensure_harness()
    bld = vbuild.build("plain")
    cases = make_cases(tr)
    F, tot = run_cases(PROP, bld, cases, script_fn, check_fn, batch_size=20)
    if (tot.get("logged", 0) == 0 or tot.get("dropped", 0) == 0 or tot.get("mode:hidden", 0) == 0) and F.n_unlisted() == 0:
        raise Harness("observed too little: %s" % tot)
    rc = F.report()
    write_evidence(PROP, "exploration", tr, dict(
        evaluations=len(cases), distinct_nontrivial=len({(tuple(c["chain"]), c["leaf"], c["text"]) for c in cases}),
        rule="ancestor chains of depth 1..12 with names from a pool (spaces, parentheses, exactly 15 and >15 bytes, prefixes of each other, case variants), leaf name from the same pool; list modes: contains an ancestor (every depth) / none / only the leaf's own name / only near misses of an ancestor / a real ancestor of the harness / tree hidden; duplicates and empty items; distinct = (chain, leaf, list)",
        samples=[dict(chain=[x.decode("latin-1") for x in c["chain"]], leaf=c["leaf"].decode("latin-1"), list=c["text"].decode("latin-1"), mode=c["mode"]) for c in cases[:5]],
        monitor_events=tot, real_ancestors=sorted(ABOVE), build=dict(variant="plain", treehash=bld.treehash), violation_keys=sorted(F.viol)),
        time.time() - t0, F.n_unlisted(),
        ["kernel names are what prctl(PR_SET_NAME) stores (first 15 bytes)", "names containing ',' ';' or '\"' cannot be written in a filter_chain value and are not generated",
         "'unreadable tree' is produced by mounting an empty tmpfs over /proc in the driver's private mount namespace"])
    log("[C15] %d cases %s %.1fs" % (len(cases), tot, time.time() - t0))
    return rc
