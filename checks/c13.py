"""C13 - registered names bind to their own implementation in every build.

Runtime introspection of compiled registries: for each enumerated build configuration the three registry translation
units of the working tree are compiled against that configuration's config.h, linked with all implementation objects of
an all-features-on build, and a probe walks names[i] / ptrs[i]; the address is resolved to its symbol with nm.
Oracle: name X -> snoopy_datasource_X / snoopy_filter_X / snoopy_output_Xoutput, the set of names equals the enabled
set (+ the unconditional failure/noop), terminators intact, both arrays of one registry have the same element count.
A few configurations are additionally built end to end with the repo's ./configure --disable-... and exercised through
the real lookup-by-name path with a state in which all data sources give different values.
"""
import os
import re
import shutil
import subprocess
import time

from vlib import build as vbuild
from vlib.common import Findings, Harness, HBIN, VERIF, log, mkwork, rmwork, rng_for, tier, write_evidence
from vlib.drive import Script, ensure_harness, pmap, run_vdrive

PROP = "C13"
REGS = ("datasourceregistry", "filterregistry", "outputregistry")


def features(config_h_text):
    ds = re.findall(r"SNOOPY_CONF_DATASOURCE_ENABLED_(\w+)", config_h_text)
    fl = re.findall(r"SNOOPY_CONF_FILTER_ENABLED_(\w+)", config_h_text)
    ou = re.findall(r"SNOOPY_CONF_OUTPUT_ENABLED_(\w+)", config_h_text)
    return sorted(set(ds)), sorted(set(fl)), sorted(set(ou))


def make_config_h(base_text, off, thread_safety):
    t = base_text
    for kind, name in off:
        macro = "SNOOPY_CONF_%s_ENABLED_%s" % (kind, name)
        t = re.sub(r"#define %s 1" % re.escape(macro), "/* #undef %s */" % macro, t)
    if not thread_safety:
        t = t.replace("#define SNOOPY_CONF_THREAD_SAFETY_ENABLED 1", "/* #undef SNOOPY_CONF_THREAD_SAFETY_ENABLED */")
    return t


def expected_symbol(kind, name):
    return {"datasource": "snoopy_datasource_%s", "filter": "snoopy_filter_%s", "output": "snoopy_output_%soutput"}[kind] % name


def probe_config(arg):
    bld, objdir, base_text, off, ts, idx, root, allf = arg
    work = os.path.join(root, "p%05d" % idx)
    os.makedirs(work, exist_ok=True)
    F = Findings(PROP)
    with open(os.path.join(work, "config.h"), "w") as f:
        f.write(make_config_h(base_text, off, ts))
    src = os.path.join(bld.src, "src")
    objs = []
    for r in REGS:
        o = os.path.join(work, r + ".o")
        c = subprocess.run(["gcc", "-O0", "-g", "-I" + work, "-I" + src, "-I" + bld.src, "-c", os.path.join(src, r + ".c"), "-o", o], capture_output=True, text=True)
        if c.returncode != 0:
            F.violation("C13:registry-does-not-compile", "registry %s does not compile with %d features off (thread safety %s): %s" % (r, len(off), ts, c.stderr[-300:]),
                        dict(off=off, thread_safety=ts))
            shutil.rmtree(work, ignore_errors=True)
            return F, dict(configs=1)
        objs.append(o)
    exe = os.path.join(work, "probe")
    rest = [os.path.join(objdir, x) for x in sorted(os.listdir(objdir)) if x.endswith(".o")]
    c = subprocess.run(["gcc", "-no-pie", "-o", exe, os.path.join(VERIF, "harness", "vprobe.c")] + objs + rest + ["-lpthread", "-ldl"], capture_output=True, text=True)
    if c.returncode != 0:
        raise Harness("probe link failed: " + c.stderr[-800:])
    # candidate names for the lookup functions: every name of every registry (all-on), each proper prefix, the empty name,
    # names with a character appended and in upper case
    ds_all_, fl_all_, ou_all_ = allf
    cands = set([""])
    for n in list(ds_all_) + list(fl_all_) + list(ou_all_) + ["failure", "noop"]:
        cands.add(n)
        cands.add(n + "x")
        cands.add(n + "_")
        cands.add(n.upper())
        for i in range(1, len(n)):
            cands.add(n[:i])
    cands = sorted(cands)
    with open(os.path.join(work, "cands"), "w") as f:
        f.write("".join(c + "\n" for c in cands))
    out = subprocess.run([exe, os.path.join(work, "cands")], capture_output=True, text=True, timeout=30)
    nm = subprocess.run(["nm", "-S", exe], capture_output=True, text=True).stdout
    addr2sym = {}
    sizes = {}
    for line in nm.splitlines():
        p = line.split()
        if len(p) == 4:
            addr2sym.setdefault(int(p[0], 16), []).append(p[3])
            sizes[p[3]] = int(p[1], 16)
        elif len(p) == 3:
            addr2sym.setdefault(int(p[0], 16), []).append(p[2])
    wit = dict(features_off=["%s:%s" % o for o in off], thread_safety=ts, probe_output=out.stdout[-3000:])
    st = dict(configs=1, bindings=0)
    if out.returncode != 0:
        F.violation("C13:probe-crashed", "walking the registries crashed (rc %d): terminator or array lengths broken" % out.returncode, wit)
        shutil.rmtree(work, ignore_errors=True)
        return F, st
    offset = set(off)
    ds_all, fl_all, ou_all = allf
    enabled = {
        "datasource": [n for n in ds_all if ("DATASOURCE", n) not in offset and (n != "snoopy_threads" or ts)] + ["failure", "noop"],
        "filter": [n for n in fl_all if ("FILTER", n) not in offset] + ["noop"],
        "output": [n for n in ou_all if ("OUTPUT", n) not in offset] + ["noop"],
    }
    seen = {"datasource": [], "filter": [], "output": []}
    lookups = []
    for line in out.stdout.splitlines():
        p = line.split()
        if p[0] == "counts":
            continue
        if p[0] == "lookup":
            m = re.match(r"lookup (\w+) \[(.*)\] (-?\d+) (-?\d+)$", line)
            lookups.append((m.group(1), m.group(2), int(m.group(3)), int(m.group(4))))
            continue
        kind, i, name = p[0], int(p[1]), p[2]
        addr = 0 if p[3] == "(nil)" else int(p[3], 16)
        seen[kind].append(name)
        syms = addr2sym.get(addr, [])
        st["bindings"] += 1
        want = expected_symbol(kind, name)
        if want not in syms:
            F.violation("C13:name-bound-to-wrong-implementation:%s" % kind, "%s name %r is bound to %s (expected %s) with features off: %s, thread safety %s" % (
                kind, name, syms or hex(addr), want, ["%s:%s" % o for o in off][:6], ts), wit)
    for kind, name, got_id, got_exists in lookups:
        st["lookups"] = st.get("lookups", 0) + 1
        want_id = seen[kind].index(name) if name in seen[kind] else -1
        if got_id != want_id or bool(got_exists) != (want_id >= 0):
            cls = "unknown-name-resolves" if want_id < 0 else "name-resolves-elsewhere"
            F.violation("C13:lookup:%s:%s" % (cls, kind), "%s lookup of %r gives id %d (%s), exists=%d; the table has it at %d (features off: %s)" % (
                kind, name, got_id, seen[kind][got_id] if 0 <= got_id < len(seen[kind]) else "-", got_exists, want_id, ["%s:%s" % o for o in off][:6]),
                dict(features_off=["%s:%s" % o for o in off], thread_safety=ts, name=name))
    for kind in seen:
        if sorted(seen[kind]) != sorted(enabled[kind]):
            extra = sorted(set(seen[kind]) - set(enabled[kind]))
            missing = sorted(set(enabled[kind]) - set(seen[kind]))
            F.violation("C13:name-set-differs:%s" % kind, "%s registry lists %s unexpectedly and lacks %s (features off: %s)" % (kind, extra, missing, ["%s:%s" % o for o in off][:6]), wit)
        if len(set(seen[kind])) != len(seen[kind]):
            F.violation("C13:duplicate-name:%s" % kind, "a name occurs twice in the %s registry" % kind, wit)
        nsz = sizes.get("snoopy_%sregistry_names" % kind)
        psz = sizes.get("snoopy_%sregistry_ptrs" % kind)
        if nsz and psz and nsz // 8 != psz // 8 + 1:
            F.violation("C13:array-length-mismatch:%s" % kind, "%s registry: names[] has %d entries (incl. terminator), ptrs[] has %d" % (kind, nsz // 8, psz // 8), wit)
    shutil.rmtree(work, ignore_errors=True)
    return F, st


# ------------------------------------------------------------------ end-to-end builds

def e2e(arg):
    off, ts, idx = arg
    extra = ["--disable-%s-%s" % (k.lower(), n) for k, n in off] + ([] if ts else ["--disable-thread-safety"])
    F = Findings(PROP)
    st = dict(e2e_builds=1, e2e_values=0)
    try:
        bld = vbuild.build("plain", extra_cfg=extra, tag="c13-e2e-%d" % idx)
    except Harness as e:
        if "configure failed" in str(e):
            # ./configure itself refuses some combinations (e.g. a data source the default message format needs)
            return F, dict(e2e_builds=0, e2e_values=0, e2e_rejected_by_configure=1)
        raise
    exe = vbuild.build_vitro(bld, asan=False)
    work = mkwork("c13e")
    try:
        with open(bld.config_h) as f:
            ds_on, fl_on, ou_on = features(re.sub(r"/\* #undef.*?\*/", "", f.read()))
        s = Script()
        s.raw("nosinks")
        s.fork(1)
        s.raw("stdin pty")
        s.raw("envset " + Script.vec([b"HOME=/the/home", b"LOGNAME=lgn", b"TZ=UTC"]))
        s.raw("chdir " + work.encode().hex())
        s.raw("gid 11 12 13")
        s.raw("uid 21 22 23")
        s.raw("vinit 0 %s %s %s" % (Script.elem(b"/bin/e2e-path"), Script.vec([b"e2e", b"arg1"]), Script.vec([b"E=1"])))
        s.raw("oracle 1")
        names = ["uid", "euid", "gid", "egid", "pid", "ppid", "sid", "tid_kernel", "cwd", "filename", "cmdline", "hostname", "snoopy_literal", "env", "tty", "failure", "noop",
                 "cgroup", "datetime", "domain", "egroup", "env_all", "eusername", "group", "ipaddr", "login", "rpname", "snoopy_configure_command", "snoopy_threads",
                 "snoopy_version", "systemd_unit_name", "tid", "timestamp", "timestamp_ms", "timestamp_us", "tty_uid", "tty_username", "username"]
        for i, n in enumerate(names):
            arg_ = {"snoopy_literal": b"lit-arg", "env": b"HOME", "cgroup": b"0", "datetime": b"%Y"}.get(n, b"")
            s.raw("vds %d %s %s 4096" % (100 + i, Script.elem(n.encode()), Script.elem(arg_)))
        s.raw("vcleanup 0")
        s.endfork()
        res = run_vdrive(bld, s.text(), work, exe=exe, preload=[os.path.join(HBIN, "libvrec.so")], timeout=120)
        O = next((e for e in res.events if e["ev"] == "ORACLE"), None)
        if O is None:
            raise Harness("no oracle event in e2e run: %s" % res.stderr[-300:])
        vs = {e["id"] - 100: e for e in res.events if e["ev"] == "V"}
        wit = dict(configure_args=extra)
        for i, n in enumerate(names):
            v = vs.get(i)
            if v is None:
                ch = [e for e in res.events if e["ev"] == "CHILD"]
                F.violation("C13:e2e:crash-calling-name", "in a build with %s, calling data source %r by name never returned (process status %s): the name is bound to something that is not its implementation" % (
                    extra[:5], n, ch[:1] and (ch[0]["signal"], ch[0]["status"])), wit)
                break
            on = n in ds_on or n in ("failure", "noop")
            if n == "snoopy_threads" and not ts:
                on = False
            got = bytes.fromhex(v["out"])
            if not on:
                if v["ret"] != -1 or got != b"":
                    F.violation("C13:e2e:disabled-name-still-resolves", "data source %s is switched off but calling it by name returned %d %r" % (n, v["ret"], got[:40]), wit)
                continue
            exp = {"uid": b"21", "euid": b"22", "gid": b"11", "egid": b"12", "pid": b"%d" % O["pid"], "ppid": b"%d" % O["ppid"], "sid": b"%d" % O["sid"],
                   "tid_kernel": b"%d" % O["ktid"], "cwd": work.encode(), "filename": b"/bin/e2e-path", "cmdline": b"e2e arg1", "hostname": bytes.fromhex(O["nodename"]),
                   "snoopy_literal": b"lit-arg", "env": b"/the/home", "tty": bytes.fromhex(O.get("stdin_link", "")), "noop": b"", "tid": b"%d" % O["pthread"],
                   "failure": b"Artificial datasource failure triggered", "tty_uid": b"%d" % O.get("stdin_path_uid", 0), "login": None, "datetime": time.strftime("%Y").encode()}.get(n)
            if exp is None:
                continue
            st["e2e_values"] += 1
            if got != exp:
                F.violation("C13:e2e:wrong-value-for-name", "in a build with %s, %%{%s} returns %r, expected %r: another implementation answers to this name" % (extra[:5], n, got[:60], exp[:60]), wit)
        e2e_invivo(bld, ou_on, fl_on, F, st, extra, work)
    finally:
        rmwork(work)
        shutil.rmtree(bld.dir, ignore_errors=True)
    return F, st


def e2e_invivo(bld, ou_on, fl_on, F, st, extra, work):
    """the reduced build's production library, through snoopy.ini: every output that is still available must receive the
    record when named in `output =`, every filter still available must decide as its name says (uid 0, stdin on a pty)."""
    from vlib.drive import sink_bytes
    logf = os.path.join(work, "invivo.log")
    sockp = os.path.join(work, "sock")
    cases = []
    for o in sorted(ou_on):
        spec = {"file": "file:" + logf, "socket": "socket:" + sockp, "stdout": "stdout", "stderr": "stderr", "devlog": "devlog", "devnull": "devnull",
                "devtty": None, "syslog": None, "noop": "noop"}.get(o)
        if spec:
            cases.append(("output", o, 'message_format = "E2E-%s"\noutput = %s\n' % (o, spec), True))
    for fl, chain, logged in (("only_root", "only_root", True), ("only_uid", "only_uid:0", True), ("only_uid", "only_uid:5", False), ("exclude_uid", "exclude_uid:0", False),
                              ("exclude_uid", "exclude_uid:5", True), ("only_tty", "only_tty", True), ("exclude_spawns_of", "exclude_spawns_of:no-such-prog", True)):
        if fl in fl_on and "file" in ou_on:
            cases.append(("filter", chain, 'message_format = "E2E-%s"\noutput = file:%s\nfilter_chain = "%s"\n' % (chain, logf, chain), logged))
    s = Script()
    s.raw("sinkfile " + logf.encode().hex())
    s.raw("stdin pty")
    for i, (kind, name, conf, logged) in enumerate(cases):
        s.conf(("[snoopy]\n" + conf).encode())
        s.call(i + 1, "execve", b"/bin/e2e", [b"e2e"], [b"E=1"], -1, 2)
    res = run_vdrive(bld, s.text(), work, timeout=120, heap=False, mtx=False)
    reals = {e["id"]: e for e in res.events if e["ev"] == "REAL"}
    for i, (kind, name, conf, logged) in enumerate(cases):
        e = reals.get(i + 1)
        wit = dict(configure_args=extra, config=conf)
        if e is None:
            F.violation("C13:e2e:call-did-not-complete", "in a build with %s the call under %s %r never reached the real exec" % (extra[:5], kind, name), wit)
            return
        st["e2e_invivo"] = st.get("e2e_invivo", 0) + 1
        want = ("E2E-%s" % name).encode()
        sk = e["sinks"]
        where = {"file": bytes.fromhex(sk.get("file0", "")), "stdout": bytes.fromhex(sk["stdout"]), "stderr": bytes.fromhex(sk["stderr"]),
                 "socket": b"|".join(bytes.fromhex(x) for x in sk["sock"]), "devlog": b"|".join(bytes.fromhex(x) for x in sk["devlog"])}
        target = name if kind == "output" else "file"
        for sink, data in where.items():
            has = want in data
            should = logged and sink == target
            if has != should and not (kind == "output" and name in ("devnull", "noop") and not has):
                F.violation("C13:e2e:%s-misbound" % kind, "in a build with %s, %s %r: sink %s %s the record (expected: %s)" % (
                    extra[:5], kind, name, sink, "got" if has else "did not get", "record at %s" % target if logged else "no record"), wit)


# ------------------------------------------------------------------ names shared by several registries

def xreg_arm(F, tot):
    """The same name may exist in more than one registry ('noop' in all three): looking it up in one registry must not
    influence what it means in another.  All orders of (filter, output, data source) lookups of each shared name are run
    through the real lookup-by-name functions of the default build; results and every sink are checked."""
    import itertools
    bld = vbuild.build("plain")
    exe = vbuild.build_vitro(bld, asan=False)
    work = mkwork("c13x")
    try:
        s = Script()
        orders = list(itertools.permutations(["filter", "output", "ds"])) + [("filter", "filter", "output"), ("ds", "output", "output"), ("output", "filter", "ds")]
        for oi, order in enumerate(orders):
            s.fork(oi + 1)
            s.raw("vinit 0 %s %s %s" % (Script.elem(b"/bin/x"), Script.vec([b"x"]), Script.vec([b"E=1"])))
            for k, what in enumerate(order):
                cid = (oi + 1) * 10 + k
                if what == "filter":
                    s.raw("vfilter %d %s %s" % (cid, Script.elem(b"noop"), Script.elem(b"")))
                elif what == "output":
                    s.raw("voutput %d %s %s %s" % (cid, Script.elem(b"noop"), Script.elem(b"XREG-MESSAGE"), Script.elem(b"")))
                else:
                    s.raw("vds %d %s %s 300" % (cid, Script.elem(b"noop"), Script.elem(b"")))
            s.raw("vcleanup 0")
            s.endfork()
        res = run_vdrive(bld, s.text(), work, exe=exe, preload=[os.path.join(HBIN, "libvrec.so")], timeout=120)
        for oi, order in enumerate(orders):
            wit = dict(lookup_order=order)
            ch = [e for e in res.events if e["ev"] == "CHILD" and e.get("tag") == oi + 1]
            if not ch:
                raise Harness("no CHILD event in the cross-registry arm")
            tot["xreg_orders"] = tot.get("xreg_orders", 0) + 1
            if ch[0]["signal"] or ch[0]["status"]:
                F.violation("C13:xreg:crash", "looking up the name 'noop' in the order %s crashed (signal %d)" % (order, ch[0]["signal"]), wit)
                continue
            gained = {k: v for k, v in ch[0].get("sinks", {}).items() if k != "_" and v not in ("", [])}
            if gained:
                F.violation("C13:xreg:noop-output-wrote-something", "after lookups in the order %s the 'noop' output wrote to %s: another implementation answered to the name" % (order, sorted(gained)), dict(wit, sinks=gained))
            for k, what in enumerate(order):
                v = [e for e in res.events if e["ev"] == "V" and e["id"] == (oi + 1) * 10 + k]
                if not v:
                    F.violation("C13:xreg:no-result", "lookup %d (%s) of order %s never returned" % (k, what, order), wit)
                    break
                want = {"filter": 1, "output": 0, "ds": 0}[what]
                if v[0]["ret"] != want or (what == "ds" and v[0]["out"] != ""):
                    F.violation("C13:xreg:wrong-result:%s" % what, "'noop' looked up as %s in the order %s returned %d %r (expected %d)" % (what, order, v[0]["ret"], v[0].get("out"), want), wit)
    finally:
        rmwork(work)


def main():
    t0 = time.time()
    tr = tier()
    ensure_harness()
    rng = rng_for(PROP, tr)
    bld = vbuild.build("plain", extra_cfg=["--enable-output-syslog"], tag="allon")
    with open(bld.config_h) as f:
        base_text = f.read()
    ds_all, fl_all, ou_all = features(base_text)
    if len(ds_all) < 30 or len(fl_all) < 5 or len(ou_all) < 8:
        raise Harness("feature macros not found in config.h: %d/%d/%d" % (len(ds_all), len(fl_all), len(ou_all)))
    allfeat = [("DATASOURCE", n) for n in ds_all] + [("FILTER", n) for n in fl_all] + [("OUTPUT", n) for n in ou_all]
    root = mkwork("c13")
    objdir = os.path.join(root, "objs")
    os.makedirs(objdir)
    subprocess.run(["ar", "x", bld.archive], cwd=objdir, check=True)
    for r in REGS:
        os.unlink(os.path.join(objdir, r + ".o"))
    configs = [([], True), ([], False), (list(allfeat), True), (list(allfeat), False)]
    for f in allfeat:
        configs.append(([f], True))                                   # each single feature off
        configs.append(([x for x in allfeat if x != f], True))        # each single feature on
    if tr == "thorough":
        for i in range(len(allfeat)):
            for j in range(i + 1, len(allfeat)):
                configs.append(([allfeat[i], allfeat[j]], True))
    for _ in range(200 if tr == "quick" else 5000):
        k = rng.choice([1, 2, 3, 5, 10, 20, 30, len(allfeat) - 3])
        configs.append((rng.sample(allfeat, min(k, len(allfeat))), rng.random() < 0.8))
    jobs = [(bld, objdir, base_text, off, ts, i, root, (ds_all, fl_all, ou_all)) for i, (off, ts) in enumerate(configs)]
    F = Findings(PROP)
    tot = {}
    from vlib.batch import merge_findings
    for f, st in pmap(probe_config, jobs, 16):
        merge_findings(F, f)
        for k, v in st.items():
            tot[k] = tot.get(k, 0) + v
    rmwork(root)
    # end-to-end builds through the repo's own configure switches
    ne = 4 if tr == "quick" else 24
    ejobs = []
    for i in range(ne):
        if i == 0:
            off = [("DATASOURCE", "cmdline"), ("DATASOURCE", "egid"), ("FILTER", "only_root"), ("OUTPUT", "devtty")]
        else:
            off = rng.sample([("DATASOURCE", n) for n in ds_all], rng.randrange(1, 10)) + rng.sample([("FILTER", n) for n in fl_all], 1) + \
                  rng.sample([("OUTPUT", n) for n in ou_all if n not in ("syslog", "devlog")], 1)
        ejobs.append((off, not (i % 4 == 3), i))
    # the first entries of each registry switched off (what comes first then is a different, still available name)
    ejobs.append(([("OUTPUT", "devlog"), ("OUTPUT", "devnull"), ("OUTPUT", "devtty")], True, ne))        # 'file' comes first
    ejobs.append(([("FILTER", "exclude_spawns_of"), ("DATASOURCE", "cgroup"), ("DATASOURCE", "systemd_unit_name")], False, ne + 1))            # 'exclude_uid' / 'cmdline' come first
    if tr != "quick":
        ejobs.append(([("OUTPUT", "devlog")], True, ne + 2))
        ejobs.append(([("OUTPUT", "devlog"), ("OUTPUT", "devnull"), ("OUTPUT", "devtty"), ("OUTPUT", "file"), ("OUTPUT", "noop")], True, ne + 3))
    for f, st in pmap(e2e, ejobs, 4):
        merge_findings(F, f)
        for k, v in st.items():
            tot[k] = tot.get(k, 0) + v
    xreg_arm(F, tot)
    if (tot.get("bindings", 0) == 0 or tot.get("e2e_values", 0) == 0) and F.n_unlisted() == 0:
        raise Harness("observed too little: %s" % tot)
    rc = F.report()
    write_evidence(PROP, "exploration", tr, dict(
        evaluations=len(configs) + ne, distinct_nontrivial=len({(tuple(sorted(o)), t) for o, t in configs}),
        rule="configurations: all on, all off (each with thread safety on/off), each single feature off, each single feature on%s, random subsets; %d features (%d data sources, %d filters, %d outputs); plus %d end-to-end ./configure builds; distinct = distinct (feature set, thread safety)" % (
            ", every pair off" if tr == "thorough" else "", len(allfeat), len(ds_all), len(fl_all), len(ou_all), ne),
        samples=[dict(off=["%s:%s" % o for o in c[0]][:8], thread_safety=c[1]) for c in configs[4:8] + configs[-2:]],
        monitor_events=tot, build=dict(variant="allon", treehash=bld.treehash), violation_keys=sorted(F.viol)),
        time.time() - t0, F.n_unlisted(),
        ["a configuration's config.h is derived from the all-on config.h by undefining the feature macros, exactly what ./configure --disable-X does (cross-checked by the end-to-end builds)",
         "the 'all 2^N combinations at once from the guard structure' argument of the quantifier is a static argument and is NOT attempted by this runtime technique"])
    log("[C13] %s %.1fs" % (tot, time.time() - t0))
    return rc
