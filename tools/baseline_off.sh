#!/bin/sh
# Runs the repository's own test suite in /repo with the verification guard OFF (in-tree CFLAGS carry no -DA2O_SNOOPY_VERIF)
# and compares the per-test results with the stable-pass list of /root/.vp/BASELINE.json.
cd /repo || exit 2
make -j16 >/var/tmp/snoopy-baseline-build.log 2>&1 || { echo "build failed"; tail -20 /var/tmp/snoopy-baseline-build.log; exit 1; }
make -k check >/var/tmp/snoopy-baseline-check.log 2>&1
rm -f tests/output/output_socket.sh.*.sock.out
python3 - <<'PY'
import json, glob, os, sys
base = json.load(open('/root/.vp/BASELINE.json'))['stable_pass']
res = {}
for trs in glob.glob('/repo/tests/*/*.trs'):
    name = os.path.relpath(trs, '/repo')[:-4]
    for l in open(trs):
        if l.startswith(':test-result:'):
            res[name] = l.split()[1]
bad = [t for t in base if res.get(t) != 'PASS']
print("baseline: %d/%d stable tests pass" % (len(base) - len(bad), len(base)))
for t in bad:
    print("  NOT PASSING:", t, res.get(t))
sys.exit(1 if bad else 0)
PY
