"""C07 - the filter chain is a conjunction; a drop silences the call.

All chains of <=3 (quick) / <=4 (thorough) elements over a 14-spec alphabet plus random long chains, under real uid in
{0, U} x stdin in {pty, pipe}.  chain_model (DESIGN A.4) predicts logged/dropped from the process state the harness set
up; on drop every sink must stay empty and the real exec must still happen exactly once.  Metamorphic cross-check: every
chain with the same set of elements gets the same decision.
"""
import itertools
import time

from vlib import build as vbuild
from vlib.batch import events_of, run_cases
from vlib.common import Findings, Harness, log, rng_for, short, tier, write_evidence
from vlib.drive import Script, ensure_harness, sink_bytes

PROP = "C07"
U = 12345
ALPHABET = ["only_root", "only_uid:0", "only_uid:%d" % U, "exclude_uid:0", "exclude_uid:%d" % U, "only_tty",
            "exclude_spawns_of:vdrive", "exclude_spawns_of:nope", "noop", "nosuch", "nosuch:arg", "", "only_uid:", ":x", "exclude_uid", "only_uid"]
# first values of a filter_chain option that is given twice (empty, quoted empty, passing, dropping for every uid used, unknown)
FIRST_VALUES = ['', '""', '"noop"', '"only_uid:99999"', '"exclude_uid:0,%d"' % U, '"nosuch"', '";"', '"only_root;only_uid:%d"' % U]
KNOWN = {"only_root", "only_uid", "exclude_uid", "only_tty", "exclude_spawns_of", "noop"}


def ancestor_names():
    """kernel names of this python process and all its ancestors (they are ancestors of every vdrive child too)."""
    names = {"vdrive"}
    pid = __import__("os").getpid()
    while pid > 0:
        try:
            with open("/proc/%d/stat" % pid, "rb") as f:
                st = f.read()
        except OSError:
            break
        l, r = st.index(b"("), st.rindex(b")")
        names.add(st[l + 1:r].decode("latin-1"))
        pid = int(st[r + 2:].split()[1])
    return names


ANCESTORS = ancestor_names()


def verdict(spec, uid, tty):
    """True pass / False drop / None ignored / 'open' either."""
    if spec == "":
        return None
    name, _, arg = spec.partition(":")
    if name not in KNOWN:
        return None
    if name == "noop":
        return True
    if name == "only_root":
        return uid == 0
    if name == "only_tty":
        return tty
    if name in ("only_uid", "exclude_uid"):
        if arg == "":
            return "open"           # malformed list: C14 does not define it
        members = [int(x) for x in arg.split(",")]
        return (uid in members) if name == "only_uid" else (uid not in members)
    if name == "exclude_spawns_of":
        return not any(a in ANCESTORS for a in arg.split(",") if a != "")
    raise ValueError(spec)


def model(chain_elems, uid, tty):
    """-> set of acceptable decisions {'log','drop'}"""
    vs = [verdict(e, uid, tty) for e in chain_elems]
    if any(v is False for v in vs):
        return {"drop"}
    if any(v == "open" for v in vs):
        return {"log", "drop"}
    return {"log"}


def make_cases(tr):
    rng = rng_for(PROP, tr)
    chains = [()]
    for n in range(1, (3 if tr == "quick" else 4) + 1):
        chains += list(itertools.product(range(len(ALPHABET)), repeat=n))
    cases = []
    cid = 0
    for ch in chains:
        elems = [ALPHABET[i] for i in ch]
        if tr == "thorough" and len(ch) == 4:
            states = [(rng.choice([0, U]), rng.choice([True, False]))]
        else:
            states = [(0, True), (0, False), (U, True), (U, False)]
        for uid, tty in states:
            cid += 1
            cases.append(dict(id=cid, elems=elems, text=";".join(elems), uid=uid, tty=tty, cls="enum"))
    nr = 1500 if tr == "quick" else 20000
    for _ in range(nr):
        n = rng.randrange(4, 21)
        elems = []
        for _ in range(n):
            e = rng.choice(ALPHABET)
            if e.startswith(("only_uid:", "exclude_uid:")) and e[-1] != ":" and rng.random() < 0.5:
                extra = [str(rng.choice([1, 2, 999, 65535, 12344, 12346, 123450, 1234])) for _ in range(rng.randrange(1, 8))]
                base = e.split(":")[1]
                lst = extra + [base]
                rng.shuffle(lst)
                e = e.split(":")[0] + ":" + ",".join(lst)
            if e.startswith("exclude_spawns_of:") and rng.random() < 0.5:
                lst = [e.split(":")[1]] + [rng.choice(["bash", "sshd", "vdriv", "vdrivee", "x y"]) for _ in range(rng.randrange(1, 4))]
                rng.shuffle(lst)
                e = "exclude_spawns_of:" + ",".join(lst)
            if e.startswith("nosuch:") and rng.random() < 0.3:
                e = "nosuch:" + "a" * rng.choice([10, 200, 600])
            elems.append(e)
        text = ";".join(elems)
        if rng.random() < 0.3:
            text += ";" * rng.randrange(1, 4)
        if rng.random() < 0.2:
            text = ";" + text
        if len(text) > 990:
            continue
        cid += 1
        cases.append(dict(id=cid, elems=text.split(";"), text=text, uid=rng.choice([0, U]), tty=rng.choice([True, False]), cls="random"))
    # the option given twice: only the last value counts (etc/snoopy.ini.in, DESIGN A.1 rule 7), whatever the first one was
    for _ in range(600 if tr == "quick" else 6000):
        elems = [rng.choice(ALPHABET) for _ in range(rng.randrange(0, 4))]
        cid += 1
        cases.append(dict(id=cid, elems=elems, text=";".join(elems), uid=rng.choice([0, U]), tty=rng.choice([True, False]), cls="twice",
                          pre=rng.choice(FIRST_VALUES)))
    return cases


def script_fn(c, B, s):
    pre = "filter_chain=%s\n" % c["pre"] if "pre" in c else ""
    conf = ("[snoopy]\n%smessage_format = \"M%d\"\noutput = file:%s\nfilter_chain=\"%s\"\n" % (pre, c["id"], B.logf, c["text"])).encode()
    new = B.begin_case(s, c, key=c["uid"])          # cases with the same uid share a process in groups of 1..8
    if new and c["uid"]:
        s.raw("uid %d %d %d" % (c["uid"], c["uid"], c["uid"]))
    s.conf(conf)
    s.raw("stdin pty" if c["tty"] else "stdin pipe")
    s.call(c["id"], "execve", b"/bin/x%d" % c["id"], [b"x"], [b"E=1"], -1, 2)
    B.end_case(s, c)


def check_fn(c, evs, B):
    wit = dict(chain=c["text"], uid=c["uid"], stdin_tty=c["tty"])
    if "pre" in c:
        wit["first_value_of_the_option"] = c["pre"]
    ch = events_of(evs, "CHILD")
    if ch and ch[0]["signal"]:
        B.F.violation("C07:caller-killed:sig%d" % ch[0]["signal"], "caller died evaluating chain %r" % c["text"][:100], wit)
        return
    real = events_of(evs, "REAL")
    if len(real) != 1:
        B.F.violation("C07:real-exec-count=%d" % len(real), "exec happened %d times under chain %r" % (len(real), c["text"][:100]), wit)
        return
    r = real[0]
    B.count("calls")
    gained = {k: v for k, v in r["sinks"].items() if v not in ("", [], 0)}
    end = events_of(evs, "END")
    if end:
        for k, v in end[0]["sinks"].items():
            if v not in ("", [], 0):
                gained["late:" + k] = v
    rec = sink_bytes(r, "file0")
    want = model(c["elems"], c["uid"], c["tty"])
    logged = rec == b"M%d\n" % c["id"]
    if logged and set(gained) == {"file0"}:
        got = "log"
    elif not gained:
        got = "drop"
    else:
        B.F.violation("C07:unexpected-output", "chain %r: sinks gained %r" % (c["text"][:100], {k: str(v)[:60] for k, v in gained.items()}), wit)
        return
    B.count(got)
    c["_got"] = got
    if got not in want:
        # classify which element decides
        B.F.violation("C07:decision-%s-expected-%s:%s" % (got, "/".join(sorted(want)), c["cls"]),
                      "chain %r under uid=%d tty=%s was %s, model says %s" % (c["text"][:160], c["uid"], c["tty"], got, sorted(want)), wit)
    B.st.setdefault("_dec", []).append((tuple(sorted(set(e for e in c["elems"] if e != ""))), c["uid"], c["tty"], got, c["text"][:80]))


def main():
    t0 = time.time()
    tr = tier()
    ensure_harness()
    bld = vbuild.build("plain")
    cases = make_cases(tr)
    F, tot = run_cases(PROP, bld, cases, script_fn, check_fn, batch_size=120)
    dec = tot.pop("_dec", [])
    # metamorphic: same element set + same state => same decision (skips sets whose model verdict is open)
    groups = {}
    for key, uid, tty, got, text in dec:
        groups.setdefault((key, uid, tty), set()).add((got, text))
    nmeta = 0
    for (key, uid, tty), outs in groups.items():
        if len(outs) > 1:
            nmeta += 1
            # (holds whatever the verdict of an individual element is, also where the model leaves that verdict open)
            if len({g for g, _ in outs}) > 1:
                F.violation("C07:order-or-repetition-changes-decision", "chains with the same elements %r decide differently: %r" % (key, sorted(outs)[:4]),
                            dict(elements=key, uid=uid, tty=tty, outcomes=sorted(outs)[:10]))
    tot["metamorphic_groups_with_several_chains"] = nmeta
    if (tot.get("log", 0) == 0 or tot.get("drop", 0) == 0) and F.n_unlisted() == 0:
        raise Harness("did not observe both decisions: %s" % tot)
    rc = F.report()
    write_evidence(PROP, "exploration", tr, dict(
        evaluations=len(cases), distinct_nontrivial=len({(c["text"], c["uid"], c["tty"], c.get("pre")) for c in cases}),
        rule="all chains of <=%d elements over the %d-spec alphabet x uid{0,%d} x stdin{pty,pipe} + random chains of 4..20 elements with uid lists, trailing/leading ';' + chains of 0..3 elements whose option line is preceded by an earlier filter_chain line (%d first values: empty, passing, dropping, unknown); distinct = (chain text, uid, stdin, first value)" % (3 if tr == "quick" else 4, len(ALPHABET), U, len(FIRST_VALUES)),
        exhaustive_small_chains=True,
        samples=[dict(chain=c["text"][:100], uid=c["uid"], tty=c["tty"]) for c in cases[:2] + cases[5000:5003] + cases[-2:]],
        monitor_events=tot, alphabet=ALPHABET, build=dict(variant="plain", treehash=bld.treehash), violation_keys=sorted(F.viol)),
        time.time() - t0, F.n_unlisted(),
        ["the calling child's parent process is named 'vdrive'", "only_uid:/exclude_uid: with an empty list is left open"])
    log("[C07] %d cases %s %.1fs" % (len(cases), tot, time.time() - t0))
    return rc
