/*
 * vsched - controlled scheduler for C09 (systematic interleavings) and C10 (fork while other threads are inside the library).
 *
 * The executable itself defines pthread_mutex_lock / pthread_mutex_unlock / pthread_once (exported with -rdynamic), so the
 * PLT of libsnoopy.so binds to them.  Calls whose return address lies inside libsnoopy.so are scheduling points; all
 * other callers go straight to the real functions.  Worker threads run one at a time under a baton.  A shadow of the
 * (recursive) mutex tells which threads are enabled.
 *
 * mode dfs : stateless depth-first exploration of all schedules with at most P preemptions; every schedule runs in a
 *            fresh fork() of the single-threaded parent; one JSON line per schedule on stdout.
 * mode fork: victims are stopped at their k-th stop point (after a lock acquisition = inside the critical section, or
 *            after an unlock), another thread forks, the child makes a wrapped exec call and must finish; then the
 *            victims are released and must finish too.  One JSON line per scenario.
 *
 * Run with LD_PRELOAD="libsnoopy.so libvrec.so".
 */
#define _GNU_SOURCE
#include <dlfcn.h>
#include <errno.h>
#include <fcntl.h>
#include <link.h>
#include <pthread.h>
#include <sched.h>
#include <semaphore.h>
#include <signal.h>
#include <stdint.h>
#include <stdio.h>
#include <stdlib.h>
#include <string.h>
#include <sys/mount.h>
#include <sys/syscall.h>
#include <sys/wait.h>
#include <time.h>
#include <unistd.h>

#define MAXT 8
#define MAXSTEPS 4096

enum { K_START, K_LOCK, K_UNLOCK, K_ONCE, K_END, K_ACQ };
enum { S_NEW, S_READY, S_ATLOCK, S_DONE, S_PARKED };

static int (*real_lock)(pthread_mutex_t *);
static int (*real_unlock)(pthread_mutex_t *);
static int (*real_once)(pthread_once_t *, void (*)(void));
static uintptr_t lo, hi;

static volatile int sched_active;
static int NT = 2, NC = 1;
static int with_acq_points;         /* fork mode: extra stop point right after a lock acquisition */

struct th {
    pthread_t pt;
    sem_t sem;
    int state;
    pthread_mutex_t *want;
    long ktid;
    int nsync;          /* stop points passed (fork mode) */
    int calls;
};
static struct th th[MAXT];
static sem_t main_sem;
static int cur = -1;
static __thread int me = -1;
static __thread int in_call;        /* this thread is inside a wrapped exec call (set by do_call) */
static int deep_io;                 /* --deep-io: I/O issued by libc on the library's behalf (NSS, tz data, stdio) is a stop point too */

/* shadow of Snoopy's mutex(es) */
static pthread_mutex_t *sh_m[4];
static int sh_owner[4], sh_depth[4], nsh;

/* schedule: prefix of choices, then default policy */
static int prefix[MAXSTEPS], nprefix;
static int tr_thread[MAXSTEPS], tr_kind[MAXSTEPS], tr_enabled[MAXSTEPS], tr_chosen[MAXSTEPS], tr_cur_enabled[MAXSTEPS], ntr;
static char problem[256];
static long nreal_calls;
static int lock_held_at_real;

/* fork mode */
static int fk_mode, fk_stop_at = -1, fk_victims = 1, fk_child_kind, fk_parked;
static int fk_stop_kind = K_ACQ;

static int phdr_cb(struct dl_phdr_info *i, size_t sz, void *d) {
    (void) sz; (void) d;
    if (i->dlpi_name && strstr(i->dlpi_name, "libsnoopy.so"))
        for (int k = 0; k < i->dlpi_phnum; k++)
            if (i->dlpi_phdr[k].p_type == PT_LOAD) {
                uintptr_t a = i->dlpi_addr + i->dlpi_phdr[k].p_vaddr, b = a + i->dlpi_phdr[k].p_memsz;
                if (!lo || a < lo) lo = a;
                if (b > hi) hi = b;
            }
    return 0;
}
__attribute__((constructor)) static void init(void) {
    real_lock = dlsym(RTLD_NEXT, "pthread_mutex_lock");
    real_unlock = dlsym(RTLD_NEXT, "pthread_mutex_unlock");
    real_once = dlsym(RTLD_NEXT, "pthread_once");
    dl_iterate_phdr(phdr_cb, NULL);
}
static int from_snoopy(void *ra) { return (uintptr_t) ra >= lo && (uintptr_t) ra < hi; }

static int sh_idx(pthread_mutex_t *m) {
    for (int i = 0; i < nsh; i++)
        if (sh_m[i] == m) return i;
    if (nsh < 4) {
        sh_m[nsh] = m;
        sh_owner[nsh] = -1;
        sh_depth[nsh] = 0;
        return nsh++;
    }
    return 0;
}
static int can_acquire(int t, pthread_mutex_t *m) {
    int i = sh_idx(m);
    return sh_owner[i] == -1 || sh_owner[i] == t;
}
static int enabled(int t) {
    if (th[t].state == S_READY) return 1;
    if (th[t].state == S_ATLOCK) return can_acquire(t, th[t].want);
    return 0;
}

static void fail(const char *msg) {
    if (!problem[0]) snprintf(problem, sizeof problem, "%s", msg);
}

/* one scheduling decision; returns the thread that runs next (or -1: nobody) */
static int decide(int arriving, int kind) {
    int en = 0;
    for (int t = 0; t < NT; t++)
        if (enabled(t)) en |= 1 << t;
    int choice = -1;
    if (ntr < nprefix && prefix[ntr] >= 0 && (en & (1 << prefix[ntr]))) choice = prefix[ntr];
    else if (arriving >= 0 && (en & (1 << arriving))) choice = arriving;     /* default: keep running */
    else
        for (int t = 0; t < NT; t++)
            if (en & (1 << t)) {
                choice = t;
                break;
            }
    if (ntr < MAXSTEPS) {
        tr_thread[ntr] = arriving;
        tr_kind[ntr] = kind;
        tr_enabled[ntr] = en;
        tr_chosen[ntr] = choice;
        tr_cur_enabled[ntr] = arriving >= 0 && (en & (1 << arriving));
        ntr++;
    }
    return choice;
}

static void all_done_or_deadlock(void) {
    int alldone = 1;
    for (int t = 0; t < NT; t++)
        if (th[t].state != S_DONE && th[t].state != S_PARKED) alldone = 0;
    if (!alldone) fail("DEADLOCK: no thread enabled but some unfinished");
    sem_post(&main_sem);
}

static void sched_point(int kind, pthread_mutex_t *m) {
    int self = me;
    if (kind == K_LOCK) {
        th[self].state = S_ATLOCK;
        th[self].want = m;
    } else if (kind == K_END) th[self].state = S_DONE;
    else th[self].state = S_READY;
    int next = decide(self, kind);
    if (next == self) {
        th[self].state = S_READY;
        return;
    }
    if (next < 0) {
        all_done_or_deadlock();
        if (kind == K_END) return;
        sem_wait(&th[self].sem);        /* never resumed in a deadlock; main reports and exits */
        return;
    }
    cur = next;
    sem_post(&th[next].sem);
    if (kind == K_END) return;
    sem_wait(&th[self].sem);
    th[self].state = S_READY;
}

/* fork mode: victims park at their k-th stop point (whatever its kind) and hand the baton to main */
static char fk_label[64] = "-";
static void maybe_park_l(int kind, const char *label) {
    if (!fk_mode || !sched_active || me < 0 || me >= fk_victims) return;
    th[me].nsync++;
    if (th[me].nsync == fk_stop_at) {
        if (me == 0) snprintf(fk_label, sizeof fk_label, "%s", label);
        fk_stop_kind = kind;
        th[me].state = S_PARKED;
        fk_parked++;
        sem_post(&main_sem);
        sem_wait(&th[me].sem);
        th[me].state = S_READY;
    }
}
static void maybe_park(int kind) { maybe_park_l(kind, kind == K_ACQ ? "in-lock" : "after-unlock"); }

/* further stop points in fork mode: right before every I/O call the library makes (a descriptor may be open, a file lock
   held, a socket connected at that instant) */
#define K_IO 7
#include <stdarg.h>
#include <sys/file.h>
#include <sys/socket.h>
#define IO_PARK(name) do { void *ra_ = __builtin_return_address(0); if (fk_mode && sched_active && me >= 0) { if (from_snoopy(ra_)) maybe_park_l(K_IO, "io:" name); else if (deep_io && in_call) maybe_park_l(K_IO, "libc-io:" name); } } while (0)
__attribute__((visibility("default"))) int open(const char *p, int flags, ...) {
    static int (*r)(const char *, int, ...);
    if (!r) r = dlsym(RTLD_NEXT, "open");
    mode_t m = 0;
    if (flags & O_CREAT) { va_list ap; va_start(ap, flags); m = va_arg(ap, mode_t); va_end(ap); }
    IO_PARK("open");
    return r(p, flags, m);
}
__attribute__((visibility("default"))) ssize_t write(int fd, const void *b, size_t n) {
    static ssize_t (*r)(int, const void *, size_t);
    if (!r) r = dlsym(RTLD_NEXT, "write");
    IO_PARK("write");
    return r(fd, b, n);
}
__attribute__((visibility("default"))) int close(int fd) {
    static int (*r)(int);
    if (!r) r = dlsym(RTLD_NEXT, "close");
    IO_PARK("close");
    return r(fd);
}
__attribute__((visibility("default"))) int socket(int d, int t, int p) {
    static int (*r)(int, int, int);
    if (!r) r = dlsym(RTLD_NEXT, "socket");
    IO_PARK("socket");
    return r(d, t, p);
}
__attribute__((visibility("default"))) ssize_t send(int fd, const void *b, size_t n, int f) {
    static ssize_t (*r)(int, const void *, size_t, int);
    if (!r) r = dlsym(RTLD_NEXT, "send");
    IO_PARK("send");
    return r(fd, b, n, f);
}
__attribute__((visibility("default"))) int flock(int fd, int op) {
    static int (*r)(int, int);
    if (!r) r = dlsym(RTLD_NEXT, "flock");
    IO_PARK("flock");
    return r(fd, op);
}
__attribute__((visibility("default"))) FILE *fopen(const char *p, const char *m) {
    static FILE *(*r)(const char *, const char *);
    if (!r) r = dlsym(RTLD_NEXT, "fopen");
    IO_PARK("fopen");
    return r(p, m);
}
__attribute__((visibility("default"))) int fclose(FILE *f) {
    static int (*r)(FILE *);
    if (!r) r = dlsym(RTLD_NEXT, "fclose");
    IO_PARK("fclose");
    return r(f);
}

__attribute__((visibility("default"))) int pthread_mutex_lock(pthread_mutex_t *m) {
    void *ra = __builtin_return_address(0);
    if (!real_lock) init();
    if (!sched_active || me < 0 || !from_snoopy(ra)) return real_lock(m);
    if (!fk_mode) sched_point(K_LOCK, m);
    int i = sh_idx(m);
    if (!fk_mode) {
        if (sh_owner[i] != -1 && sh_owner[i] != me) fail("scheduler resumed a thread whose lock is taken");
        sh_owner[i] = me;
        sh_depth[i]++;
    }
    int r = real_lock(m);
    if (fk_mode) {
        sh_owner[i] = me;
        sh_depth[i]++;
        maybe_park(K_ACQ);
    }
    return r;
}
__attribute__((visibility("default"))) int pthread_mutex_unlock(pthread_mutex_t *m) {
    void *ra = __builtin_return_address(0);
    if (!real_unlock) init();
    if (!sched_active || me < 0 || !from_snoopy(ra)) return real_unlock(m);
    int i = sh_idx(m);
    if (sh_owner[i] != me) fail("UNLOCK by a thread that does not own the mutex");
    if (--sh_depth[i] == 0) sh_owner[i] = -1;
    int r = real_unlock(m);
    if (fk_mode) maybe_park(K_UNLOCK);
    else sched_point(K_UNLOCK, m);
    return r;
}
__attribute__((visibility("default"))) int pthread_once(pthread_once_t *o, void (*fn)(void)) {
    void *ra = __builtin_return_address(0);
    if (!real_once) init();
    if (sched_active && me >= 0 && from_snoopy(ra) && !fk_mode) sched_point(K_ONCE, NULL);
    return real_once(o, fn);
}

/* recorder callback (libvrec.so) */
__attribute__((visibility("default"))) int vdrive_on_exec(const char *fn, const char *path, char *const argv[], char *const envp[], int *ret, int *err) {
    (void) fn; (void) path; (void) argv; (void) envp;
    __sync_fetch_and_add(&nreal_calls, 1);
    if (me >= 0)
        for (int i = 0; i < nsh; i++)
            if (sh_owner[i] == me) lock_held_at_real = 1;
    *ret = -1;
    *err = ENOENT;
    return 0;
}

static void do_call(const char *tok, int use_v) {
    char path[96], a1[96];
    snprintf(path, sizeof path, "/bin/%s", tok);
    snprintf(a1, sizeof a1, "arg-%s", tok);
    char *argv[] = {path, a1, NULL};
    char *envp[] = {"E=1", NULL};
    int (*volatile p_execv)(const char *, char *const *) = execv;
    int (*volatile p_execve)(const char *, char *const *, char *const *) = execve;
    in_call = 1;
    if (use_v) p_execv(path, argv);
    else p_execve(path, argv, envp);
    in_call = 0;
}

static void *worker(void *a) {
    me = (int) (long) a;
    th[me].ktid = syscall(SYS_gettid);
    sem_post(&main_sem);            /* tell main we exist */
    sem_wait(&th[me].sem);          /* wait for the baton */
    th[me].state = S_READY;
    for (int c = 0; c < NC; c++) {
        char tok[64];
        snprintf(tok, sizeof tok, "T%dC%dz", me, c);
        do_call(tok, (c + me) & 1);
        th[me].calls++;
        for (int i = 0; i < nsh; i++)
            if (sh_owner[i] == me) fail("LOCKLEAK: call returned with the mutex still held");
    }
    if (fk_mode) {
        th[me].state = S_DONE;
        sem_post(&main_sem);
        return NULL;
    }
    sched_point(K_END, NULL);
    return NULL;
}

static char logpath[4096];

static void dump_records(FILE *o) {
    FILE *f = fopen(logpath, "r");
    fprintf(o, "\"records\":[");
    if (f) {
        char *line = NULL;
        size_t cap = 0;
        ssize_t n;
        int first = 1;
        while ((n = getline(&line, &cap, f)) > 0) {
            if (line[n - 1] == '\n') line[--n] = 0;
            fprintf(o, "%s\"", first ? "" : ",");
            for (ssize_t i = 0; i < n; i++)
                if (line[i] == '"' || line[i] == '\\' || (unsigned char) line[i] < 32) fprintf(o, "?");
                else fputc(line[i], o);
            fprintf(o, "\"");
            first = 0;
        }
        free(line);
        fclose(f);
    }
    fprintf(o, "],");
}

/* runs one schedule in this (child) process and prints its JSON line to fd `outfd` */
static void run_schedule(int outfd) {
    sem_init(&main_sem, 0, 0);
    truncate(logpath, 0);
    for (long t = 0; t < NT; t++) {
        sem_init(&th[t].sem, 0, 0);
        th[t].state = S_NEW;
        pthread_create(&th[t].pt, NULL, worker, (void *) t);
    }
    for (int t = 0; t < NT; t++) sem_wait(&main_sem);
    for (int t = 0; t < NT; t++) th[t].state = S_READY;
    sched_active = 1;
    int first = decide(-1, K_START);
    cur = first;
    sem_post(&th[first].sem);
    /* wait until everybody is done (or deadlock) with a generous wall-clock watchdog (inconclusive if it fires) */
    struct timespec ts;
    clock_gettime(CLOCK_REALTIME, &ts);
    ts.tv_sec += 20;
    int timed_out = 0;
    if (sem_timedwait(&main_sem, &ts) != 0) timed_out = 1;
    sched_active = 0;
    FILE *o = fdopen(outfd, "w");
    fprintf(o, "{\"ev\":\"SCHED\",\"nt\":%d,\"nc\":%d,\"steps\":%d,\"timeout\":%d,\"problem\":\"%s\",\"nreal\":%ld,\"lock_held_at_real\":%d,", NT, NC, ntr, timed_out,
            problem, nreal_calls, lock_held_at_real);
    fprintf(o, "\"trace\":[");
    for (int i = 0; i < ntr; i++) fprintf(o, "%s[%d,%d,%d,%d]", i ? "," : "", tr_thread[i], tr_kind[i], tr_enabled[i], tr_chosen[i]);
    fprintf(o, "],\"threads\":[");
    for (int t = 0; t < NT; t++) fprintf(o, "%s[%d,%lu,%ld,%d]", t ? "," : "", t, (unsigned long) th[t].pt, th[t].ktid, th[t].calls);
    fprintf(o, "],");
    if (!timed_out && !problem[0]) {
        for (int t = 0; t < NT; t++) pthread_join(th[t].pt, NULL);
        me = -1;
        do_call("LONEz", 0);        /* closing lone call: must see exactly one registered thread */
    }
    dump_records(o);
    fprintf(o, "\"main_tid\":%ld,\"main_pt\":%lu}\n", (long) syscall(SYS_gettid), (unsigned long) pthread_self());
    fflush(o);
}

/* ---------------------------------------------------------------- DFS driver (parent) */
struct item {
    int n;
    int *p;
    int preempt;
};
static struct item *stack;
static size_t sp, scap;
static void push(int *p, int n, int preempt) {
    if (sp == scap) {
        scap = scap ? scap * 2 : 1024;
        stack = realloc(stack, scap * sizeof *stack);
    }
    stack[sp].p = malloc(n * sizeof(int));
    memcpy(stack[sp].p, p, n * sizeof(int));
    stack[sp].n = n;
    stack[sp].preempt = preempt;
    sp++;
}

static int dfs(int maxpre, long maxsched, int shard, int nshards) {
    long nrun = 0;
    long rootalt = 0;
    int empty[1];
    push(empty, 0, 0);
    while (sp > 0 && nrun < maxsched) {
        struct item it = stack[--sp];
        int pfd[2];
        if (pipe(pfd)) return 3;
        fflush(stdout);
        pid_t pid = fork();
        if (pid == 0) {
            close(pfd[0]);
            nprefix = it.n;
            memcpy(prefix, it.p, it.n * sizeof(int));
            run_schedule(pfd[1]);
            _exit(0);
        }
        close(pfd[1]);
        FILE *f = fdopen(pfd[0], "r");
        char *line = NULL;
        size_t cap = 0;
        ssize_t n = getline(&line, &cap, f);
        fclose(f);
        int st;
        waitpid(pid, &st, 0);
        nrun++;
        if (n <= 0) {
            printf("{\"ev\":\"SCHED\",\"crashed\":1,\"signal\":%d,\"prefix_len\":%d}\n", WIFSIGNALED(st) ? WTERMSIG(st) : 0, it.n);
            free(line);
            free(it.p);
            continue;
        }
        if (it.n == 0 && shard != 0) fputs("{\"ev\":\"DUP\"}\n", stdout);     /* the root schedule is reported by shard 0 only */
        else fputs(line, stdout);
        /* parse the trace back: "trace":[[a,k,en,ch],...] */
        char *t = strstr(line, "\"trace\":[");
        int steps = 0;
        static int a[MAXSTEPS], k[MAXSTEPS], en[MAXSTEPS], ch[MAXSTEPS];
        if (t) {
            t += 9;
            while (*t == '[' || *t == ',') {
                if (*t == ',') t++;
                if (*t != '[') break;
                if (sscanf(t, "[%d,%d,%d,%d]", &a[steps], &k[steps], &en[steps], &ch[steps]) != 4) break;
                steps++;
                t = strchr(t, ']') + 1;
                if (steps >= MAXSTEPS) break;
            }
        }
        /* expand alternatives at steps beyond the prefix */
        for (int i = steps - 1; i >= it.n; i--) {
            for (int alt = 0; alt < NT; alt++) {
                if (alt == ch[i] || !(en[i] & (1 << alt))) continue;
                int cur_enabled = a[i] >= 0 && (en[i] & (1 << a[i]));
                int cost = cur_enabled ? 1 : 0;     /* switching away from a thread that could continue is a preemption */
                if (it.preempt + cost > maxpre) continue;
                if (it.n == 0 && nshards > 1 && (rootalt++ % nshards) != shard) continue;   /* subtrees of the root are split among shards */
                int np[MAXSTEPS];
                for (int j = 0; j < i; j++) np[j] = ch[j];
                np[i] = alt;
                push(np, i + 1, it.preempt + cost);
            }
        }
        free(line);
        free(it.p);
    }
    printf("{\"ev\":\"DFS\",\"schedules\":%ld,\"left_on_stack\":%zu,\"max_preemptions\":%d,\"shard\":%d,\"nshards\":%d}\n", nrun, sp, maxpre, shard, nshards);
    return 0;
}

/* ---------------------------------------------------------------- fork mode */
static void after_free_hook(void) {
    if (fk_mode && sched_active && me >= 0) maybe_park_l(K_IO, "after-free");
}

/* C16 fork arm: with libvheap.so preloaded, the number of live blocks allocated by libsnoopy.so (-1 without the monitor) */
static long snoopy_live_now(void) {
    int (*snap)(char *, size_t) = (int (*)(char *, size_t)) dlsym(RTLD_DEFAULT, "vheap_snapshot");
    if (!snap) return -1;
    static char hb[65536];
    int n = snap(hb, sizeof hb - 1);
    if (n <= 0) return -1;
    hb[n] = 0;
    const char *q = strstr(hb, "\"snoopy_live\":");
    return q ? atol(q + 14) : -1;
}
static long heap_base = -1;

static void report_child_heap(void) {
    const char *fn = getenv("VSCHED_CHILDHEAP");
    int (*snap)(char *, size_t) = (int (*)(char *, size_t)) dlsym(RTLD_DEFAULT, "vheap_snapshot");
    if (!fn || !snap) return;
    static char hb[65536];
    int n = snap(hb, sizeof hb - 1);
    if (n <= 0) return;
    int fd = open(fn, O_WRONLY | O_CREAT | O_TRUNC, 0644);
    if (fd < 0) return;
    if (write(fd, hb, n) != n) {}
    close(fd);
}

static void *child_thread_exec(void *a) {
    (void) a;
    do_call("CHILDTHREADz", 0);
    return NULL;
}

static int fk_pfd[2];
static sem_t fk_sem;
static volatile pid_t fk_pid;

static void *forker_thread(void *a) {
    (void) a;
    int *pfd = fk_pfd;
    pid_t pid = fork();
    if (pid == 0) {
        sched_active = 0;
        me = -1;
        setpgid(0, 0);
        close(pfd[0]);
        if (fk_child_kind == 1) {
            pid_t g = fork();
            if (g == 0) {
                do_call("GRANDCHILDz", 1);
                if (write(pfd[1], "G", 1) != 1) _exit(9);
                _exit(0);
            }
            int st;
            waitpid(g, &st, 0);
            _exit(0);
        } else if (fk_child_kind == 2) {
            pthread_t p;
            pthread_create(&p, NULL, child_thread_exec, NULL);
            pthread_join(p, NULL);
            if (write(pfd[1], "T", 1) != 1) _exit(9);
            _exit(0);
        }
        do_call("CHILDz", 0);
        report_child_heap();
        if (write(pfd[1], "C", 1) != 1) _exit(9);
        _exit(0);
    }
    fk_pid = pid;
    sem_post(&fk_sem);
    return NULL;
}

static int fork_scenario(void) {
    sem_init(&main_sem, 0, 0);
    truncate(logpath, 0);
    fk_mode = 1;
    NT = fk_victims;
    if (dlsym(RTLD_DEFAULT, "vheap_snapshot")) {
        /* C16 fork arm only: steady state of a single-threaded process after one complete call */
        do_call("WARMUPz", 0);
        heap_base = snoopy_live_now();
        /* ... and one more kind of stop point: right after every free() the library issues */
        void (**hook)(void) = (void (**)(void)) dlsym(RTLD_DEFAULT, "vheap_after_snoopy_free");
        if (hook) *hook = after_free_hook;
    }
    for (long t = 0; t < NT; t++) {
        sem_init(&th[t].sem, 0, 0);
        pthread_create(&th[t].pt, NULL, worker, (void *) t);
    }
    for (int t = 0; t < NT; t++) sem_wait(&main_sem);
    sched_active = 1;
    /* run victim 0 until it is parked at its stop point; further victims either park too (stop point outside the lock)
       or run into the lock victim 0 holds and wait there for real */
    int parked = 0, completions = 0;
    int stop_at_arg = fk_stop_at;
    for (int t = 0; t < NT; t++) {
        sem_post(&th[t].sem);
        int lock_held = 0;
        for (int i = 0; i < nsh; i++)
            if (sh_owner[i] == 0) lock_held = 1;
        if (t == 0 || !lock_held || th[0].state != S_PARKED) {
            sem_wait(&main_sem);
            if (th[t].state == S_PARKED) parked++;
            else completions++;
        } else {
            struct timespec ts = {0, 30 * 1000 * 1000};
            nanosleep(&ts, NULL);
        }
    }
    int points = th[0].nsync;
    /* fork from another thread while the victims are stopped.  If the library serialises fork() against its own critical
       sections (atfork handler taking the lock), fork() itself waits for the parked victim: then the victims are released
       and the fork goes ahead - that is correct behaviour, and it is reported as fork_waited_for_lock */
    if (pipe(fk_pfd)) return 3;
    sem_init(&fk_sem, 0, 0);
    pthread_t forker;
    pthread_create(&forker, NULL, forker_thread, NULL);
    int fork_waited_for_lock = 0, released = 0;
    {
        struct timespec ts;
        clock_gettime(CLOCK_REALTIME, &ts);
        ts.tv_nsec += 300 * 1000 * 1000;
        if (ts.tv_nsec >= 1000000000L) { ts.tv_sec++; ts.tv_nsec -= 1000000000L; }
        if (sem_timedwait(&fk_sem, &ts) != 0) {
            fork_waited_for_lock = 1;
            fk_stop_at = -1;
            for (int t = 0; t < NT; t++)
                if (th[t].state == S_PARKED) sem_post(&th[t].sem);
            released = 1;
            clock_gettime(CLOCK_REALTIME, &ts);
            ts.tv_sec += 10;
            if (sem_timedwait(&fk_sem, &ts) != 0) fail("FORKSTUCK: fork() did not return within 10 s after the victims were released");
        }
    }
    pid_t pid = fk_pid;
    int *pfd = fk_pfd;
    close(pfd[1]);
    /* bounded wait, decided on the child's state: blocked in futex with no progress = deadlock */
    int st = 0, done = 0, blocked_samples = 0;
    char sysc[128] = "";
    for (int i = 0; i < 300; i++) {
        if (waitpid(pid, &st, WNOHANG) == pid) {
            done = 1;
            break;
        }
        struct timespec ts = {0, 10 * 1000 * 1000};
        nanosleep(&ts, NULL);
        if (i >= 20 && i % 10 == 0) {
            /* look at every task of the child process tree */
            char pth[64];
            snprintf(pth, sizeof pth, "/proc/%d/syscall", pid);
            int fd = open(pth, O_RDONLY);
            if (fd >= 0) {
                ssize_t r = read(fd, sysc, sizeof sysc - 1);
                if (r > 0) sysc[r] = 0;
                close(fd);
                for (char *q = sysc; *q; q++) if (*q == '\n') *q = ' ';
                if (!strncmp(sysc, "202 ", 4) || !strncmp(sysc, "61 ", 3) || !strncmp(sysc, "247 ", 4)) blocked_samples++;
            }
            if (blocked_samples >= 3) break;
        }
    }
    char got = 0;
    fcntl(pfd[0], F_SETFL, O_NONBLOCK);
    if (read(pfd[0], &got, 1) != 1) got = 0;
    if (!done) {
        kill(-pid, SIGKILL);        /* the child made itself a process group leader: this also reaps a stuck grandchild */
        kill(pid, SIGKILL);
        waitpid(pid, &st, 0);
    }
    /* release the victims: they must all finish their calls */
    fk_stop_at = -1;
    if (!released)
        for (int t = 0; t < NT; t++)
            if (th[t].state == S_PARKED) sem_post(&th[t].sem);
    for (int t = completions; t < NT; t++) {
        struct timespec ts;
        clock_gettime(CLOCK_REALTIME, &ts);
        ts.tv_sec += 10;
        if (sem_timedwait(&main_sem, &ts) != 0) break;
    }
    int victims_done = 0;
    for (int t = 0; t < NT; t++)
        if (th[t].state == S_DONE) victims_done++;
    sched_active = 0;
    printf("{\"ev\":\"FORK\",\"victims\":%d,\"stop_at\":%d,\"stop_kind\":\"%s\",\"child_kind\":%d,\"parked\":%d,\"points_seen\":%d,\"child_done\":%d,\"child_status\":%d,"
           "\"heap_base\":%ld,\"fork_waited_for_lock\":%d,\"child_reached_end\":\"%c\",\"child_blocked_samples\":%d,\"child_syscall\":\"%s\",\"victims_done\":%d,\"problem\":\"%s\",",
           fk_victims, stop_at_arg, fk_label, fk_child_kind, parked, points, done, done && WIFEXITED(st) ? WEXITSTATUS(st) : -1,
           heap_base, fork_waited_for_lock, got ? got : '-', blocked_samples, sysc, victims_done, problem);
    dump_records(stdout);
    printf("\"nreal\":%ld}\n", nreal_calls);
    fflush(stdout);
    return 0;
}

int main(int argc, char **argv) {
    const char *mnt = NULL, *mode = "dfs";
    int maxpre = 2, shard = 0, nshards = 1;
    long maxsched = 1000000;
    for (int i = 1; i < argc; i++) {
        if (!strcmp(argv[i], "--mount")) mnt = argv[++i];
        else if (!strcmp(argv[i], "--mode")) mode = argv[++i];
        else if (!strcmp(argv[i], "--deep-io")) deep_io = 1;
        else if (!strcmp(argv[i], "--threads")) NT = atoi(argv[++i]);
        else if (!strcmp(argv[i], "--calls")) NC = atoi(argv[++i]);
        else if (!strcmp(argv[i], "--preemptions")) maxpre = atoi(argv[++i]);
        else if (!strcmp(argv[i], "--max-schedules")) maxsched = atol(argv[++i]);
        else if (!strcmp(argv[i], "--shard")) sscanf(argv[++i], "%d/%d", &shard, &nshards);
        else if (!strcmp(argv[i], "--log")) snprintf(logpath, sizeof logpath, "%s", argv[++i]);
        else if (!strcmp(argv[i], "--stop-at")) fk_stop_at = atoi(argv[++i]);
        else if (!strcmp(argv[i], "--stop-kind")) i++;   /* obsolete: the k-th stop point is taken whatever its kind */
        else if (!strcmp(argv[i], "--victims")) fk_victims = atoi(argv[++i]);
        else if (!strcmp(argv[i], "--child-kind")) fk_child_kind = atoi(argv[++i]);
    }
    (void) with_acq_points;
    if (NT > MAXT) NT = MAXT;
    if (mnt) {
        char src[4096], *c;
        snprintf(src, sizeof src, "%s", mnt);
        c = strchr(src, ':');
        *c = 0;
        if (unshare(CLONE_NEWNS) || mount("none", "/", NULL, MS_REC | MS_PRIVATE, NULL) || mount(src, c + 1, NULL, MS_BIND, NULL)) {
            perror("vsched: namespace");
            return 3;
        }
    }
    if (!lo) {
        fprintf(stderr, "vsched: libsnoopy.so is not loaded\n");
        return 3;
    }
    if (!strcmp(mode, "fork")) return fork_scenario();
    return dfs(maxpre, maxsched, shard, nshards);
}
