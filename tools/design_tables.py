#!/usr/bin/env python3
"""Regenerates the round-2 / round-3 tables of DESIGN.md section 11 between their markers."""
import os
import subprocess
import sys
V = os.path.dirname(os.path.dirname(os.path.abspath(__file__)))
p = os.path.join(V, "DESIGN.md")
s = open(p).read()
for tag, tool in (("R2", "seeded_round2.py"), ("R3", "seeded_round3.py"), ("R4", "seeded_round4.py")):
    b, e = "<!-- %s-TABLE-BEGIN -->" % tag, "<!-- %s-TABLE-END -->" % tag
    if b not in s or not os.path.exists(os.path.join(V, "seeded", "results_round%s.json" % tag[1])):
        continue
    t = subprocess.run([sys.executable, os.path.join(V, "tools", tool), "table"], capture_output=True, text=True).stdout
    s = s[:s.index(b) + len(b)] + "\n" + t + s[s.index(e):]
open(p, "w").write(s)
print("tables regenerated")
