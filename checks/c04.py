"""C04 - exactly one faithful record per logged exec, none when filtered.

Every sink a record could reach is owned by the driver and sampled at BEGIN, at the instant the real exec is entered and
after return.  With M = the model's expansion of the format: a passing chain and non-empty M => the configured sink has
gained exactly M+"\\n" (file/stdout/stderr/tty) or one datagram M (socket) or one datagram <fac|lvl>ident[pid]: M
(devlog) already when the real exec starts, every other sink gained nothing, and nothing more appears afterwards.
Dropping chain or empty M => nothing anywhere.  Real successful execs are checked from the parent side.
"""
import os
import time

from vlib import build as vbuild
from vlib.batch import events_of, run_cases
from vlib.common import Findings, Harness, HBIN, log, rng_for, short, tier, write_evidence
from vlib.drive import Script, ensure_harness, expand_vec, sink_bytes

PROP = "C04"
FAC = {"AUTH": 4, "AUTHPRIV": 10, "CRON": 9, "DAEMON": 3, "FTP": 11, "KERN": 0, "LOCAL0": 16, "LOCAL1": 17, "LOCAL2": 18, "LOCAL3": 19,
       "LOCAL4": 20, "LOCAL5": 21, "LOCAL6": 22, "LOCAL7": 23, "LPR": 6, "MAIL": 2, "NEWS": 7, "SYSLOG": 5, "USER": 1, "UUCP": 8}
LVL = {"EMERG": 0, "ALERT": 1, "CRIT": 2, "ERR": 3, "WARNING": 4, "NOTICE": 5, "INFO": 6, "DEBUG": 7}
OUTPUTS = ["file", "stdout", "stderr", "devtty", "socket", "devlog", "devnull", "noop", "unknown", "file-template", "default", "fifo"]
STREAM_SINK = {"file": "file0", "stdout": "stdout", "stderr": "stderr", "devtty": "tty", "file-template": "file1"}


def gen_msg(rng, size_kind, lm):
    n = {"1": 1, "2": 2, "255": 255, "4094": 4094, "4095": 4095, "4096": 4096, "4097": 4097, "65535": 65535,
         "lm-1": lm - 1, "lm": lm, "small": rng.randrange(3, 80), "empty": 0,
         "pow2": (1 << rng.randrange(1, 18)) + rng.choice([-2, -1, 0, 1, 2]), "any": rng.randrange(1, 5000),
         "over": lm + rng.choice([1, 2, 100, 5000])}[size_kind]
    n = max(1, n) if size_kind != "empty" else 0
    style = rng.choice(["allbytes", "ascii", "newlines", "marker"])
    if n == 0:
        return b""
    if style == "allbytes":
        b = bytes(rng.randrange(1, 256) for _ in range(min(n, 512)))
    elif style == "newlines":
        b = bytes(rng.choice(b"ab\n\r\t c") for _ in range(min(n, 512)))
    elif style == "marker":
        b = b"M"
    else:
        b = bytes(rng.choice(b"abcdefghijklmnopqrstuvwxyz0123456789 ") for _ in range(min(n, 512)))
    b = (b * (n // len(b) + 1))[:n]
    return b


def make_cases(tr):
    rng = rng_for(PROP, tr)
    n = 2500 if tr == "quick" else 60000
    cases = []
    sizes = ["1", "2", "255", "4094", "4095", "4096", "4097", "65535", "lm-1", "lm", "small", "small", "empty", "pow2", "pow2", "pow2", "any", "any", "any", "over", "over"]
    for i in range(n):
        out = rng.choice(OUTPUTS)
        lm = rng.choice([255, 4096, 16383, 65535, 200000 if out not in ("devtty",) else 4096])
        sk = rng.choice(sizes)
        msg = gen_msg(rng, sk, lm)
        if len(msg) > lm and sk != "over":
            msg = msg[:lm]
        if out == "devtty" and len(msg) > 3000:
            msg = msg[:3000]
        if out == "fifo" and len(msg) > 60000:
            msg = msg[:60000]       # stays below the default pipe capacity: the property is about content, a full pipe is not        # pty buffers are small; the property is about content, capacity is C03's domain
        chain = rng.choice(["", "", "", "only_root", "noop;only_uid:0", "exclude_uid:0", "only_uid:7", "only_root;exclude_uid:0"])
        drop = chain in ("exclude_uid:0", "only_uid:7", "only_root;exclude_uid:0")
        fac = rng.choice(list(FAC))
        lvl = rng.choice(list(LVL))
        ident = rng.choice([None, b"snoopy", b"id-%{snoopy_literal:x}", b"%{env:IDV}", b"a b[c]:", b""])
        real = (rng.random() < (0.12 if tr == "quick" else 0.09)) and out != "devtty"
        errlog = rng.random() < (0.5 if sk == "over" else 0.08)
        static = rng.random() < 0.15
        if static:
            msg = b"STATIC"
            chain = rng.choice(["noop", "noop;noop", "exclude_uid:5;noop", "noop;only_root", ""])
            drop = False
        afterfork = (not real) and out != "devtty" and rng.random() < 0.12
        cases.append(dict(static=static, afterfork=afterfork, id=i + 1, out=out, lm=lm, msg=msg, chain=chain, drop=drop, fac=fac, lvl=lvl, ident=ident, real=real,
                          errlog=errlog, sk=sk, spell=rng.choice(["plain", "LOG_", "lower"])))
    # systematic size sweep per output: every power of two -1/0/+1 up to 128 KiB and the stdio / page boundaries
    sweep = sorted({max(1, (1 << k) + d) for k in range(0, 18) for d in (-1, 0, 1)} | {255, 256, 1000, 2047, 2048, 4094, 4095, 4096, 4097, 8191, 8192, 16383})
    for out in ("file", "stdout", "stderr", "devtty", "file-template", "socket", "devlog"):
        for n_ in sweep:
            if out == "devtty" and n_ > 3000:
                continue
            cases.append(dict(afterfork=False, id=len(cases) + 1, out=out, lm=262144, msg=bytes([65 + (n_ % 26)]) * n_, chain="", drop=False, fac="USER", lvl="INFO",
                              ident=None, real=False, errlog=False, sk="sweep", spell="plain"))
    return cases


def conf_for(c, B):
    o = c["out"]
    outline = {"file": "file:" + B.logf, "stdout": "stdout", "stderr": "stderr", "devtty": "devtty", "socket": "socket:" + B.sock,
               "devlog": "devlog", "devnull": "devnull", "noop": "noop", "unknown": "nosuchoutput:x",
               "file-template": "file:" + B.work + "/tpl-%{snoopy_literal:lit}-%{env:IDV}", "default": None,
               "fifo": "file:" + B.work + "/fifo-%d" % c["id"]}[o]
    fac, lvl = c["fac"], c["lvl"]
    if c["spell"] == "LOG_":
        fac, lvl = "LOG_" + fac, "LOG_" + lvl
    elif c["spell"] == "lower":
        fac, lvl = fac.lower(), "log_" + lvl.lower()
    fmt = "%{cmdline}"
    if c.get("static"):
        fmt = "STATIC"
    ds = max(255, c["lm"])
    if c["sk"] == "over":
        ds = 1048575            # the source may deliver the whole over-long text: it then does not fit the message any more
    t = "[snoopy]\nlog_message_max_length = %d\ndatasource_message_max_length = %d\nmessage_format = \"%s\"\n" % (c["lm"], ds, fmt)
    t += "syslog_facility = %s\nsyslog_level = %s\n" % (fac, lvl)
    if outline:
        t += "output = %s\n" % outline
    if c["chain"]:
        t += "filter_chain=\"%s\"\n" % c["chain"]
    if c["errlog"]:
        t += "error_logging = yes\n"
    b = t.encode()
    if c["ident"] is not None:
        b += b"syslog_ident = \"" + c["ident"] + b"\"\n"
    return b


def ident_text(c):
    i = c["ident"]
    if i is None:
        return b"snoopy"
    return i.replace(b"%{snoopy_literal:x}", b"x").replace(b"%{env:IDV}", b"idv")


def script_fn(c, B, s):
    if not getattr(B, "tpl_registered", False):
        s.sinkfile(os.path.join(B.work, "tpl-lit-idv"))      # file1: target of the path-template output
        B.tpl_registered = True
    if c["out"] == "fifo":
        c["real"] = False
        c["afterfork"] = False
    B.begin_case(s, c, solo=(c["out"] in ("devtty", "fifo") or c["real"] or c["afterfork"]))
    if c["out"] == "fifo":
        # a FIFO as log file whose reader attaches only 150 ms after the call started
        fp = B.work + "/fifo-%d" % c["id"]
        s.raw("sinkreset")
        s.sinkfile(fp + ".out")             # registered before it exists: everything the reader stores counts as new
        s.raw("fifosink %s 150" % fp.encode().hex())
    s.conf(conf_for(c, B))
    if c["out"] == "devtty":
        s.raw("ctty")
    s.raw("envset " + Script.vec([b"IDV=idv", b"HOME=/"]))
    if c["afterfork"]:
        # a failed exec in the parent first, then fork, then the observed call in the child (state cached by the first
        # call must not leak into what the child logs, e.g. its pid)
        s.call(c["id"] + 5000000, "execve", b"/bin/c04-prime", [b"prime"], [b"E=1"], -1, 2)
        s.fork(c["id"] + 6000000)
        s.call(c["id"], "execve", b"/bin/c04", [c["msg"]] if c["msg"] else [b""], [b"E=1"], -1, 2)
        s.endfork()
        B.end_case(s, c)
        return
    if c["real"]:
        p = os.path.join(B.work, "vt-%d" % c["id"]).encode()
        if not os.path.lexists(p):
            os.symlink(os.path.join(HBIN, "vtrue"), p)
        s.call(c["id"], "execve", p, [c["msg"]] if c["msg"] else [b""], [b"E=1"], 0, 0, real=True)
    else:
        # message travels in argv: cmdline of a single argument is that argument
        s.call(c["id"], "execve", b"/bin/c04", [c["msg"]] if c["msg"] else [b""], [b"E=1"], -1, 2)
    if c["out"] == "fifo":
        s.raw("waitreader")
        s.raw("snap fifo%d" % c["id"])
    B.end_case(s, c)


def check_fn(c, evs, B):
    wit = dict(case_id=c["id"], size_kind=c["sk"], static=c.get("static"), output=c["out"], chain=c["chain"], msg_len=len(c["msg"]), msg=short(c["msg"], 60), lm=c["lm"], facility=c["fac"],
               level=c["lvl"], ident=repr(c["ident"]), real=c["real"], error_logging=c["errlog"])
    ch = events_of(evs, "CHILD")
    real = events_of(evs, "REAL")
    if ch and ch[0]["signal"]:
        B.F.violation("C04:caller-killed:sig%d:%s" % (ch[0]["signal"], c["out"]), "caller died (output %s, %d-byte message)" % (c["out"], len(c["msg"])), wit)
        return
    if len(real) != 1:
        raise Harness("REAL events: %d for case %d" % (len(real), c["id"]))
    r = real[0]
    B.count("calls")
    gained = {}
    for k, v in r["sinks"].items():
        if k != "_" and v not in ("", []):
            gained[k] = sink_bytes(r, k)
    later = {}
    end = events_of(evs, "END")
    for ev in end:
        for k, v in ev.get("sinks", {}).items():
            if k != "_" and v not in ("", []):
                later[k] = sink_bytes(ev, k)
    if not end:
        # successful real exec: parent-side view.  The parent re-reads file sinks from its own (older) offset, so what
        # the child already reported at the real exec is taken off the front.
        for ev in ch:
            for k, v in ev.get("sinks", {}).items():
                if k == "_" or v in ("", []):
                    continue
                data = sink_bytes(ev, k)
                if k.startswith("file") and isinstance(data, bytes):
                    seen = gained.get(k, b"")
                    if data.startswith(seen):
                        data = data[len(seen):]
                    if not data:
                        continue
                later[k] = data
        B.count("real_success")
    o = c["out"]
    M = c["msg"]
    if o == "fifo":
        snap = [e for e in B.res.events if e["ev"] == "SNAP" and e.get("tag") == "fifo%d" % c["id"]]
        if not snap:
            raise Harness("no SNAP event for fifo case %d" % c["id"])
        got = b""
        for ev in real + events_of(evs, "END") + snap:      # the reader may store the record before or after the call returns
            part = sink_bytes(ev, "file0") or b""
            if isinstance(part, tuple):
                part = part[1]
            got += part
        if len(M) > c["lm"] and not c["drop"]:
            B.count("over_limit_not_judged")
            return
        want = b"" if (c["drop"] or M == b"") else M + b"\n"
        if got != want:
            B.F.violation("C04:fifo:%s" % ("record-missing" if not got else "content-differs"), "FIFO log file with a reader attaching 150 ms late received %s, expected %s (%s)" % (
                short(got, 60), short(want, 60), "chain=%r message=%d bytes" % (c["chain"], len(M))), wit)
        else:
            B.count("exact:fifo" if want else "silent_ok")
        return
    if len(M) > c["lm"] and not c["drop"]:
        B.count("over_limit_not_judged")        # what is logged for an over-long message is C05's business; here only: a drop stays silent
        return
    expect_none = c["drop"] or M == b"" or o in ("devnull", "noop")
    desc = "output=%s chain=%r message=%d bytes" % (o, c["chain"], len(M))
    if later:
        cls = "stdout-buffered" if set(later) == {"stdout"} and o == "stdout" else "other"
        B.F.violation("C04:record-after-real-exec-started:%s" % cls, "sinks %s gained bytes only after the real exec was entered (%s)" % (sorted(later), desc), wit)
    if expect_none:
        if gained:
            B.F.violation("C04:output-when-none-expected:%s" % ("dropped" if c["drop"] else ("empty-message" if M == b"" else o)),
                          "sinks %s gained %s (%s)" % (sorted(gained), short(repr(list(gained.values())[0]), 80), desc), wit)
        else:
            B.count("silent_ok")
        return
    if o in STREAM_SINK:
        sink = STREAM_SINK[o]
        want = M + b"\n"
    elif o == "socket":
        sink = "sock"
        want = [M]
    else:           # devlog, unknown output name and unset output all mean the built-in default: devlog
        sink = "devlog"
        pri = FAC[c["fac"]] * 8 + LVL[c["lvl"]]
        want = [b"<%d>%s[%d]: %s" % (pri, ident_text(c), r["pid"], M)]
    others = {k: v for k, v in gained.items() if k != sink}
    if others:
        B.F.violation("C04:record-at-wrong-sink:%s" % "+".join(sorted(others)), "sinks other than the configured one gained bytes (%s)" % desc, wit)
    got = gained.get(sink)
    if got is None and sink in ("sock", "devlog") and len(want[0]) > 150000:
        B.count("datagram_refused_by_os")
        return
    if got is None:
        if o == "stdout" and "stdout" in later:
            return      # already reported above as record-after-real-exec-started
        B.F.violation("C04:record-missing:%s" % o, "no record at %s when the real exec was entered (%s)" % (sink, desc), wit)
        return
    if got != want:
        if isinstance(want, list):
            if len(got) != 1:
                key = "datagram-count=%d" % len(got)
            elif sink == "devlog" and got[0].endswith(M) and not got[0].startswith(want[0][:want[0].index(b">") + 1]):
                key = "devlog-priority"
            elif sink == "devlog" and got[0].endswith(M):
                key = "devlog-frame"
            else:
                key = "datagram-content"
            B.F.violation("C04:%s:%s" % (o, key), "datagram(s) %s, expected %s (%s)" % (short(repr(got), 100), short(repr(want), 100), desc), wit)
        else:
            if got == M:
                key = "newline-missing"
            elif got.count(M) > 1 or got == want + want:
                key = "record-duplicated"
            elif got.startswith(want):
                key = "extra-bytes-after-record"
            else:
                key = "content-differs"
            if c["errlog"] and got.endswith(want) and got.count(b"\n") >= 2:
                B.count("extra_error_records")
                return
            B.F.violation("C04:%s:%s" % (o, key), "sink gained %s, expected %s (%s)" % (short(got, 100), short(want, 100), desc), wit)
        return
    B.count("exact:" + o)


def main():
    t0 = time.time()
    tr = tier()
    ensure_harness()
    bld = vbuild.build("plain")
    cases = make_cases(tr)
    F, tot = run_cases(PROP, bld, cases, script_fn, check_fn, batch_size=40)
    need = ["exact:file", "exact:stderr", "exact:socket", "exact:devlog", "exact:devtty", "silent_ok"]
    missing = [k for k in need if tot.get(k, 0) == 0]
    if missing:
        raise Harness("monitor never observed: %s (%s)" % (missing, tot))
    rc = F.report()
    write_evidence(PROP, "exploration", tr, dict(
        evaluations=len(cases), distinct_nontrivial=len({(c["out"], c["msg"], c["chain"], c["fac"], c["lvl"], c["ident"], c["real"]) for c in cases}),
        rule="random (output in %s, message size in 1/2/255/4094..4097/65535/limit-1/limit/empty with every byte value but NUL, chain passing or dropping, facility x level x spelling, ident template, real or failing exec); distinct = distinct tuples" % OUTPUTS,
        samples=[dict(output=c["out"], msg=short(c["msg"], 40), chain=c["chain"], fac=c["fac"], lvl=c["lvl"], real=c["real"]) for c in cases[:5]],
        monitor_events=tot, build=dict(variant="plain", treehash=bld.treehash), violation_keys=sorted(F.viol)),
        time.time() - t0, F.n_unlisted(),
        ["connect('/dev/log') is redirected to a driver-owned datagram socket by libvrec.so",
         "datagrams larger than 150000 bytes may be refused by the OS (zero or one whole record accepted)",
         "devtty messages are capped at 3000 bytes (pty capacity)"])
    log("[C04] %d cases %s %.1fs" % (len(cases), tot, time.time() - t0))
    return rc
