/* vprobe - walks the three compiled registries and prints index, name and implementation address (C13). */
#include <stdio.h>
#include <string.h>
extern char *snoopy_datasourceregistry_names[];
extern int (*snoopy_datasourceregistry_ptrs[])(char *, size_t, const char *);
extern char *snoopy_filterregistry_names[];
extern int (*snoopy_filterregistry_ptrs[])(const char *);
extern char *snoopy_outputregistry_names[];
extern int (*snoopy_outputregistry_ptrs[])(const char *, const char *);
int snoopy_datasourceregistry_getIdFromName(const char *);
int snoopy_filterregistry_getIdFromName(const char *);
int snoopy_outputregistry_getIdFromName(const char *);
int snoopy_datasourceregistry_doesNameExist(const char *);
int snoopy_filterregistry_doesNameExist(const char *);
int snoopy_outputregistry_doesNameExist(const char *);
int snoopy_datasourceregistry_getCount(void);
int snoopy_filterregistry_getCount(void);
int snoopy_outputregistry_getCount(void);
int main(int argc, char **argv) {
    for (int i = 0; strcmp(snoopy_datasourceregistry_names[i], "") != 0; i++)
        printf("datasource %d %s %p\n", i, snoopy_datasourceregistry_names[i], (void *) snoopy_datasourceregistry_ptrs[i]);
    for (int i = 0; strcmp(snoopy_filterregistry_names[i], "") != 0; i++)
        printf("filter %d %s %p\n", i, snoopy_filterregistry_names[i], (void *) snoopy_filterregistry_ptrs[i]);
    for (int i = 0; strcmp(snoopy_outputregistry_names[i], "") != 0; i++)
        printf("output %d %s %p\n", i, snoopy_outputregistry_names[i], (void *) snoopy_outputregistry_ptrs[i]);
    /* candidate names (one per line in the file given as argv[1]; an empty line is the empty name) through the lookup functions */
    if (argc > 1) {
        FILE *f = fopen(argv[1], "r");
        char line[512];
        while (f && fgets(line, sizeof line, f)) {
            line[strcspn(line, "\n")] = 0;
            printf("lookup datasource [%s] %d %d\n", line, snoopy_datasourceregistry_getIdFromName(line), snoopy_datasourceregistry_doesNameExist(line));
            printf("lookup filter [%s] %d %d\n", line, snoopy_filterregistry_getIdFromName(line), snoopy_filterregistry_doesNameExist(line));
            printf("lookup output [%s] %d %d\n", line, snoopy_outputregistry_getIdFromName(line), snoopy_outputregistry_doesNameExist(line));
        }
        if (f) fclose(f);
    }
    printf("counts %d %d %d\n", snoopy_datasourceregistry_getCount(), snoopy_filterregistry_getCount(), snoopy_outputregistry_getCount());
    return 0;
}
