#!/bin/bash
# verify_seeded.sh <tag> <patch.diff> <demo.sh> : independent confirmation of a seeded change in a scratch worktree:
#   builds the patched tree, runs the repo's suite (must still be 172/172 of the stable list), runs the demonstration on the
#   patched build (must FAIL) and on an unpatched reference build /tmp/vfy-orig (must PASS).  Removes the worktree afterwards.
tag="$1"; patch="$2"; demo="$3"
wt=/tmp/vfy-$tag
git -C /repo worktree remove --force $wt >/dev/null 2>&1
sh /verif/tools/mk_worktree.sh $wt >/dev/null || exit 2
cd $wt || exit 2
git apply "$patch" || { echo "APPLY-FAILED"; git -C /repo worktree remove --force $wt; exit 2; }
( ./configure --sysconfdir=$wt/demo-etc >/dev/null 2>&1 && make -j16 >/dev/null 2>&1 ) || { echo "BUILD-FAILED"; git -C /repo worktree remove --force $wt; exit 2; }
make -k check >/dev/null 2>&1
python3 - "$wt" <<'PY'
import json, glob, os, sys
wt = sys.argv[1]
base = json.load(open('/root/.vp/BASELINE.json'))['stable_pass']
res = {}
for trs in glob.glob(wt + '/tests/*/*.trs'):
    name = os.path.relpath(trs, wt)[:-4]
    for l in open(trs):
        if l.startswith(':test-result:'):
            res[name] = l.split()[1]
bad = [t for t in base if res.get(t) != 'PASS']
print("SUITE: %d/%d stable tests pass%s" % (len(base) - len(bad), len(base), "" if not bad else " NOT PASSING: " + ",".join(bad)))
PY
if [ ! -d /tmp/vfy-orig ]; then
  sh /verif/tools/mk_worktree.sh /tmp/vfy-orig >/dev/null && ( cd /tmp/vfy-orig && ./configure --sysconfdir=/tmp/vfy-orig/demo-etc >/dev/null 2>&1 && make -j16 >/dev/null 2>&1 )
fi
echo "--- demo on PATCHED build:"; timeout 600 bash "$demo" $wt 2>&1 | tail -4; echo "exit=${PIPESTATUS[0]}"
echo "--- demo on UNPATCHED build:"; timeout 600 bash "$demo" /tmp/vfy-orig 2>&1 | tail -4; echo "exit=${PIPESTATUS[0]}"
cd /; git -C /repo worktree remove --force $wt
