"""C17 - file records are appended whole; concurrent writers never interleave.

Arm 1 (per-record syscall monitor, strace): for record sizes 1 B .. 1 MiB and the file / devnull / devtty targets, the
syscalls Snoopy issues between the driver's BEGIN and REAL markers are inspected: exactly one open of the target with
O_APPEND and without O_TRUNC, on that descriptor exactly one write-type call whose length is the whole record and whose
return value equals it, no seek / truncate; pre-existing bytes untouched.
Arm 2 (stress): 2..16 writers (processes x threads) append self-describing records of mixed sizes to one file; the file
must parse as whole records and their multiset must equal what the writers issued.
"""
import os
import re
import subprocess
import time

from vlib import build as vbuild
from vlib.common import Findings, Harness, HBIN, SYSCONF, log, mkwork, rmwork, rng_for, short, tier, write_evidence
from vlib.drive import Script, ensure_harness, pmap, run_vdrive

PROP = "C17"
SIZES = sorted({max(1, (1 << k) + d) for k in range(0, 18) for d in (-1, 0, 1)} | {100, 255, 1000, 4094, 4095, 4096, 4097, 8191, 8192, 8193, 65536, 200000, 1048575})
LINE = re.compile(r"^(\d+)\s+(\w+)\((.*)\)\s+=\s+(-?\d+|\?)(.*)$")


def trace_case(arg):
    bld, target, sizes, prefill, root, idx = arg[:6]
    full_at = arg[6] if len(arg) > 6 else None       # "file" target on a tmpfs of that many bytes: the disk fills up mid-record
    work = os.path.join(root, "t%03d" % idx)
    os.makedirs(work, exist_ok=True)
    os.chmod(work, 0o777)
    F = Findings(PROP)
    st = dict(records=0, single_write=0)
    logf = os.path.join(work, "log")
    if full_at:
        fsd = os.path.join(work, "fs")
        os.makedirs(fsd, exist_ok=True)
        m = subprocess.run(["mount", "-t", "tmpfs", "-o", "size=%d,mode=0777" % full_at, "none", fsd], capture_output=True)
        if m.returncode != 0:
            raise Harness("cannot mount a small tmpfs: %s" % m.stderr[-200:])
        logf = os.path.join(fsd, "log")
    try:
        return _trace_case(bld, target, sizes, prefill, work, logf, F, st, full_at)
    finally:
        if full_at:
            subprocess.run(["umount", "-l", fsd], capture_output=True)
        rmwork(work)


def _trace_case(bld, target, sizes, prefill, work, logf, F, st, full_at):
    if prefill is not None:
        with open(logf, "wb") as f:
            f.write(prefill)
    else:
        prefill = b""           # the log file does not exist yet: the first record has to create it (still in append mode)
    path = {"file": logf, "devnull": "/dev/null", "devtty": "/dev/tty"}[target]
    out = {"file": "file:" + logf, "devnull": "devnull", "devtty": "devtty"}[target]
    s = Script()
    if target != "devtty":
        s.raw("nosinks")
    s.raw("nostate")
    if target == "devtty":
        s.raw("ctty")
    s.conf(("[snoopy]\nlog_message_max_length = 1048575\ndatasource_message_max_length = 1048575\nmessage_format = \"%%{cmdline}\"\noutput = %s\n" % out).encode())
    msgs = []
    for i, n in enumerate(sizes):
        m = bytes([97 + i % 26]) * n
        msgs.append(m)
        s.call(i + 1, "execve", b"/bin/t", [("rep", n, m[:1])], [b"E=1"], -1, 2)
    tr = os.path.join(work, "trace")
    res = run_vdrive(bld, s.text(), work, strace=["-o", tr, "-s", "40", "-e", "trace=open,openat,write,writev,pwrite64,pwritev,lseek,ftruncate,close,dup,dup2,dup3,fcntl,sendto,sendfile"],
                     timeout=300, mtx=False)
    if res.timeout or res.rc != 0:
        raise Harness("traced run failed rc=%s %s" % (res.rc, res.stderr[-300:]))
    with open(tr, "r", errors="replace") as f:
        lines = f.read().splitlines()
    # split into windows: syscalls between the driver's BEGIN write (fd 199) and the following REAL write (fd 199)
    windows = []
    cur = None
    for l in lines:
        m = LINE.match(l)
        if not m:
            continue
        name, args, ret = m.group(2), m.group(3), m.group(4)
        if name == "write" and args.startswith("199,"):
            if '{\\"ev\\":\\"BEGIN\\"' in args or '"ev\\":\\"BEGIN' in args or "BEGIN" in args:
                cur = []
            elif "REAL" in args and cur is not None:
                windows.append(cur)
                cur = None
            continue
        if cur is not None:
            cur.append((name, args, ret, l))
    if len(windows) != len(sizes):
        raise Harness("expected %d call windows in the trace, found %d" % (len(sizes), len(windows)))
    for i, (w, n) in enumerate(zip(windows, sizes)):
        reclen = n + 1
        wit = dict(target=target, record_bytes=reclen, syscalls=[x[3][:160] for x in w][:40])
        opens = [(a, r) for nm, a, r, _ in w if nm in ("open", "openat") and ('"%s"' % path) in a]
        st["records"] += 1
        ok_opens = [(a_, r_) for a_, r_ in opens if not r_.startswith("-")]
        if len(ok_opens) != 1:
            F.violation("C17:open-count=%d:%s" % (len(ok_opens), target), "%d successful opens of %s for one record of %d bytes" % (len(ok_opens), path, reclen), wit)
            continue
        a, r = ok_opens[0]
        fd = r
        if "O_APPEND" not in a:
            F.violation("C17:not-opened-for-append:%s" % target, "open flags lack O_APPEND: %s" % a[-80:], wit)
        if "O_TRUNC" in a:
            F.violation("C17:opened-with-truncate:%s" % target, "open flags contain O_TRUNC: %s" % a[-80:], wit)
        writes = [(nm, a2, r2) for nm, a2, r2, _ in w if nm in ("write", "writev", "pwrite64", "pwritev", "sendto") and a2.split(",")[0].strip() == fd]
        # (an lseek on an O_APPEND descriptor cannot move where the write lands - stdio's fopen("a") issues one - so only truncation counts)
        bad = [nm for nm, a2, r2, _ in w if nm in ("ftruncate",) and a2.split(",")[0].strip() == fd]
        if bad:
            F.violation("C17:seek-or-truncate:%s" % target, "%s on the log descriptor" % bad, wit)
        if full_at and len(writes) == 1 and writes[0][2] != str(reclen) and writes[0][1].rsplit(",", 1)[-1].strip() == str(reclen):
            # the disk is full: the kernel took only a part of the record, or nothing (that is not the library's doing); what
            # counts here is that nothing else happens to the file - no truncation (above), no second attempt that could land
            # behind another writer's record, and the bytes in front stay as they are (content comparison below)
            st["short_or_failed_writes"] = st.get("short_or_failed_writes", 0) + 1
            continue
        if len(writes) != 1:
            cls = "at-or-above-4096" if reclen >= 4096 else "below-4096"
            F.violation("C17:record-split-into-%d-writes:%s:%s" % (len(writes), cls, target),
                        "record of %d bytes was written with %d write calls (%s)" % (reclen, len(writes), [(x[0], x[2]) for x in writes][:5]), wit)
            continue
        nm, a2, r2 = writes[0]
        if nm != "write":
            F.violation("C17:unexpected-write-call:%s" % nm, "record written with %s" % nm, wit)
        asked = a2.rsplit(",", 1)[-1].strip()
        if asked != str(reclen) or r2 != str(reclen):
            F.violation("C17:short-or-wrong-length-write:%s" % target, "write asked for %s bytes, returned %s, record is %d" % (asked, r2, reclen), wit)
            continue
        st["single_write"] += 1
    if target == "file":
        with open(logf, "rb") as f:
            data = f.read()
        want = prefill + b"".join(m + b"\n" for m in msgs)
        if full_at:
            want = want[:len(data)] if len(data) >= len(prefill) and st.get("short_or_failed_writes") else want
        if data != want:
            key = "pre-existing-content-changed" if not data.startswith(prefill) else "file-content-differs"
            F.violation("C17:" + key, "file is %d bytes, expected %d (prefill %d)" % (len(data), len(want), len(prefill)), dict(target=target))
    return F, st


def stress_round(arg):
    bld, procs, threads, nrec, seed, root, idx = arg
    work = os.path.join(root, "s%03d" % idx)
    conf = os.path.join(work, "conf")
    os.makedirs(conf, exist_ok=True)
    logf = os.path.join(work, "log")
    prefill = b"PREEXISTING LINE\n" if idx % 2 == 0 else b""
    if prefill:
        with open(logf, "wb") as f:
            f.write(prefill)
    with open(os.path.join(conf, "snoopy.ini"), "w") as f:
        f.write("[snoopy]\nlog_message_max_length = 65535\ndatasource_message_max_length = 65535\nmessage_format = \"%%{cmdline}\"\noutput = file:%s\n" % logf)
    env = {"PATH": "/usr/bin:/bin", "LD_PRELOAD": "%s %s" % (bld.lib, os.path.join(HBIN, "libvrec.so"))}
    r = subprocess.run([os.path.join(HBIN, "vwriters"), "--mount", "%s:%s" % (conf, SYSCONF), "--procs", str(procs), "--threads", str(threads),
                        "--records", str(nrec), "--seed", str(seed), "--maxsize", "20000", "--out", os.path.join(work, "issued")],
                       env=env, capture_output=True, timeout=900, cwd=work)
    F = Findings(PROP)
    st = dict(stress_records=0, stress_rounds=1, stress_writers=procs * threads)
    if r.returncode == 5:
        # a writer process died of a signal inside the logging path (no other code runs in the writers)
        F.violation("C17:stress:writer-crashed", "a writer process died while %d processes x %d threads were appending: %s" % (
            procs, threads, r.stderr[-200:].decode("latin-1")), dict(procs=procs, threads=threads, seed=seed))
        return F, st
    if r.returncode != 0:
        raise Harness("vwriters failed rc=%d %s" % (r.returncode, r.stderr[-300:]))
    issued = {}
    for p in range(procs):
        with open(os.path.join(work, "issued.%d" % p)) as f:
            for l in f:
                tok, n, ch = l.split()
                issued[tok] = (int(n), ch)
    with open(logf, "rb") as f:
        data = f.read()
    wit = dict(procs=procs, threads=threads, records_per_thread=nrec, seed=seed)
    if not data.startswith(prefill):
        F.violation("C17:pre-existing-content-changed", "the line that was in the file before the writers started is gone or altered", wit)
        return F, st
    pos = len(prefill)
    seen = {}
    n = len(data)
    while pos < n:
        m = re.compile(rb"(w\d+-\d+-\d+):(\d+):").match(data, pos)
        ok = False
        if m:
            ln = int(m.group(2))
            pay = data[m.end():m.end() + ln]
            if len(pay) == ln and len(set(pay)) <= 1 and data[m.end() + ln:m.end() + ln + 1] == b"\n":
                tok = m.group(1).decode()
                seen[tok] = seen.get(tok, 0) + 1
                exp = issued.get(tok)
                if exp is None or exp[0] != ln or (ln and pay[:1].decode() != exp[1]):
                    F.violation("C17:stress:foreign-or-altered-record", "record %s:%d does not match what the writer issued (%s)" % (tok, ln, exp), wit)
                pos = m.end() + ln + 1
                st["stress_records"] += 1
                ok = True
        if not ok:
            F.violation("C17:stress:torn-or-interleaved-record", "file does not parse as whole records at offset %d: %r" % (pos, data[pos:pos + 80]),
                        dict(wit, offset=pos, context=data[max(0, pos - 60):pos + 120].decode("latin-1")))
            break
    else:
        lost = [t for t in issued if t not in seen]
        dup = [t for t, c in seen.items() if c > 1]
        if lost:
            F.violation("C17:stress:record-lost", "%d of %d issued records are missing from the file (e.g. %s)" % (len(lost), len(issued), lost[:3]), wit)
        if dup:
            F.violation("C17:stress:record-duplicated", "%d records appear more than once (e.g. %s)" % (len(dup), dup[:3]), wit)
    rmwork(work)
    return F, st


def main():
    t0 = time.time()
    tr = tier()
    ensure_harness()
    bld = vbuild.build("plain")
    rng = rng_for(PROP, tr)
    root = mkwork("c17")
    F = Findings(PROP)
    tot = {}
    jobs = []
    nrand = 200 if tr == "quick" else 2000
    rnd_sizes = [rng.choice([rng.randrange(1, 300), rng.randrange(4000, 4200), rng.randrange(8100, 8300), rng.randrange(1, 70000)]) for _ in range(nrand)]
    chunks = [SIZES] + [rnd_sizes[i:i + 25] for i in range(0, len(rnd_sizes), 25)]
    idx = 0
    for ch in chunks:
        jobs.append((bld, "file", ch, rng.choice([None, b"", b"old line\n", b"unterminated old content", b"x" * 5000 + b"\n"]), root, idx))
        idx += 1
    jobs.append((bld, "file", [1, 100, 4096, 5000], None, root, idx)); idx += 1      # fresh file, created by the first record
    # the disk fills up while a record is being written (tmpfs of 2 or 3 pages): short write, then ENOSPC
    jobs.append((bld, "file", [100, 2000, 3000, 50, 4000], b"x" * 5000 + b"\n", root, idx, 8192)); idx += 1
    jobs.append((bld, "file", [5000, 5000, 5000, 1], b"", root, idx, 12288)); idx += 1
    jobs.append((bld, "file", [8191, 1, 1, 7000], None, root, idx, 8192)); idx += 1
    jobs.append((bld, "devnull", SIZES, b"", root, idx)); idx += 1
    jobs.append((bld, "devtty", [1, 2, 100, 1000], b"", root, idx)); idx += 1
    for f, st in pmap(trace_case, jobs, 16):
        for k, v in f.viol.items():
            if k in F.viol:
                F.viol[k]["count"] += v["count"]
            else:
                F.viol[k] = v
        for k, v in st.items():
            tot[k] = tot.get(k, 0) + v
    rounds = 5 if tr == "quick" else 100
    sj = []
    for i in range(rounds):
        procs, threads = rng.choice([(2, 1), (1, 2), (4, 4), (8, 2), (2, 8), (16, 1), (1, 16), (4, 2)])
        sj.append((bld, procs, threads, 2000 // max(1, (procs * threads) // 4) if tr == "quick" else 2000, rng.randrange(1, 10**6), root, i))
    for f, st in pmap(stress_round, sj, 4):
        for k, v in f.viol.items():
            if k in F.viol:
                F.viol[k]["count"] += v["count"]
            else:
                F.viol[k] = v
        for k, v in st.items():
            tot[k] = tot.get(k, 0) + v
    rmwork(root)
    if (tot.get("records", 0) == 0 or tot.get("stress_records", 0) == 0) and F.n_unlisted() == 0:
        raise Harness("observed nothing: %s" % tot)
    rc = F.report()
    write_evidence(PROP, "exploration", tr, dict(
        evaluations=tot["records"] + tot["stress_records"], distinct_nontrivial=len(set(SIZES + rnd_sizes)) + rounds,
        rule="arm 1: one traced record per size in %s + %d random sizes, targets file (pre-filled) / devnull / devtty; arm 2: %d stress rounds of 2..16 writers (processes x threads) x mixed sizes; distinct = distinct record sizes + stress rounds" % (SIZES, nrand, rounds),
        samples=[dict(arm="trace", target="file", sizes=SIZES), dict(arm="stress", writers=[(j[1], j[2]) for j in sj][:5])],
        monitor_events=tot, build=dict(variant="plain", treehash=bld.treehash), violation_keys=sorted(F.viol)),
        time.time() - t0, F.n_unlisted(),
        ["one write(2) on an O_APPEND descriptor of a regular file is atomic with respect to other appenders (Linux/POSIX)",
         "the driver's own BEGIN/REAL log writes on fd 199 delimit the syscall window of each call"])
    log("[C17] %s %.1fs" % (tot, time.time() - t0))
    return rc
