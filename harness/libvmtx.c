/*
 * libvmtx.so - passive pass-through of pthread_mutex_lock/unlock that counts, per thread, how deep the calling
 * thread currently is inside mutexes taken *by code in libsnoopy.so* (caller address inside its mapping).
 * The driver reads vmtx_depth()/vmtx_ops() at the instant the real exec is entered.
 */
#define _GNU_SOURCE
#include <dlfcn.h>
#include <link.h>
#include <pthread.h>
#include <stdint.h>
#include <string.h>

static uintptr_t lo, hi;
static int (*real_lock)(pthread_mutex_t *);
static int (*real_unlock)(pthread_mutex_t *);
static __thread int depth;
static __thread int ops;

static int cb(struct dl_phdr_info *i, size_t sz, void *d) {
    (void) sz; (void) d;
    if (i->dlpi_name && strstr(i->dlpi_name, "libsnoopy.so")) {
        for (int k = 0; k < i->dlpi_phnum; k++) {
            if (i->dlpi_phdr[k].p_type == PT_LOAD) {
                uintptr_t a = i->dlpi_addr + i->dlpi_phdr[k].p_vaddr;
                uintptr_t b = a + i->dlpi_phdr[k].p_memsz;
                if (!lo || a < lo) lo = a;
                if (b > hi) hi = b;
            }
        }
    }
    return 0;
}
static void init(void) {
    if (!real_lock) {
        real_lock = dlsym(RTLD_NEXT, "pthread_mutex_lock");
        real_unlock = dlsym(RTLD_NEXT, "pthread_mutex_unlock");
        dl_iterate_phdr(cb, NULL);
    }
}
static int from_snoopy(void *ra) { return (uintptr_t) ra >= lo && (uintptr_t) ra < hi; }

__attribute__((visibility("default"))) int pthread_mutex_lock(pthread_mutex_t *m) {
    void *ra = __builtin_return_address(0);
    init();
    int r = real_lock(m);
    if (r == 0 && from_snoopy(ra)) { depth++; ops++; }
    return r;
}
__attribute__((visibility("default"))) int pthread_mutex_unlock(pthread_mutex_t *m) {
    void *ra = __builtin_return_address(0);
    init();
    if (from_snoopy(ra)) { depth--; ops++; }
    return real_unlock(m);
}
__attribute__((visibility("default"))) int vmtx_depth(void) { return depth; }
__attribute__((visibility("default"))) int vmtx_ops(void) { return ops; }
