"""Reference model of the message-format language (DESIGN Appendix A.2), written from the documentation.

expand(fmt, ctx) -> list of alternatives; each alternative is a list of pieces
   ("lit", bytes) | ("ds", name, bytes) | ("err", bytes)
ctx: dict(env={name: value}, path=bytes, argv=list|None, known=set of names)
"""

ERR_CLOSE = b"[ERROR: Closing data source tag ('}') not found.]"
FAIL_MSG = b"Artificial datasource failure triggered"

# documented data sources of a default build (./configure --help)
KNOWN = {
    "cgroup", "cmdline", "cwd", "datetime", "domain", "egid", "egroup", "env", "env_all", "euid", "eusername", "filename",
    "gid", "group", "hostname", "ipaddr", "login", "pid", "ppid", "rpname", "sid", "snoopy_configure_command", "snoopy_literal",
    "snoopy_threads", "snoopy_version", "systemd_unit_name", "tid", "tid_kernel", "timestamp", "timestamp_ms", "timestamp_us",
    "tty", "tty_uid", "tty_username", "uid", "username", "failure", "noop",
}
DETERMINISTIC = {"snoopy_literal", "env", "filename", "cmdline", "noop", "failure"}


def cmdline_text(path, argv):
    if argv is None or len(argv) == 0 or argv[0] is None:
        return path
    out = []
    for a in argv:
        if a is None:
            break
        out.append(a)
    return b" ".join(out)


def ds_output(name, arg, ctx):
    """-> ("ok", bytes) | ("fail", msg) | ("unknown",) | ("opaque",) for non-deterministic sources"""
    if name not in ctx.get("known", KNOWN):
        return ("unknown",)
    if name == "snoopy_literal":
        return ("ok", arg)
    if name == "env":
        v = ctx["env"].get(arg)
        return ("ok", v if v is not None else b"(undefined)")
    if name == "filename":
        return ("ok", ctx["path"])
    if name == "cmdline":
        return ("ok", cmdline_text(ctx["path"], ctx["argv"]))
    if name == "noop":
        return ("ok", b"")
    if name == "failure":
        return ("fail", FAIL_MSG)
    return ("opaque",)


def expand(fmt, ctx):
    """returns list of alternatives (lists of pieces). More than one only after an unknown data source."""
    alts = []

    def walk(pos, acc):
        while True:
            i = fmt.find(b"%{", pos)
            if i < 0:
                if pos < len(fmt):
                    acc.append(("lit", fmt[pos:]))
                alts.append(acc)
                return
            if i > pos:
                acc.append(("lit", fmt[pos:i]))
            j = fmt.find(b"}", i)
            if j < 0:
                acc.append(("err", ERR_CLOSE))
                alts.append(acc)
                return
            tag = fmt[i + 2:j]
            k = tag.find(b":")
            if k < 0:
                name, arg = tag, b""
            else:
                name, arg = tag[:k], tag[k + 1:]
            r = ds_output(name.decode("latin-1"), arg, ctx)
            if r[0] == "unknown":
                e = ("err", b"[ERROR: Data source '" + name + b"' not found.]")
                # open point: stop here, or continue after the closing brace
                alts.append(acc + [e])
                acc = acc + [e]
                pos = j + 1
                continue
            if r[0] == "fail":
                acc.append(("err", b"[ERROR: Data source '" + name + b"' failed with the following error message: '" + r[1] + b"']"))
            elif r[0] == "opaque":
                acc.append(("opaque", name))
            else:
                acc.append(("ds", name.decode("latin-1"), r[1]))
            pos = j + 1

    walk(0, [])
    # drop duplicates
    uniq = []
    for a in alts:
        if a not in uniq:
            uniq.append(a)
    return uniq


def full_text(pieces):
    return b"".join(p[-1] for p in pieces)


def fits(pieces, ds_limit, total_limit):
    if any(p[0] == "ds" and len(p[2]) > ds_limit for p in pieces):
        return False
    return len(full_text(pieces)) <= total_limit


def check(record, fmt, ctx, ds_limit, total_limit):
    """-> None if `record` is acceptable, else (key, message).  `record` is the message without the trailing newline."""
    alts = expand(fmt, ctx)
    if any(any(p[0] == "opaque" for p in a) for a in alts):
        raise ValueError("format uses a non-deterministic data source")
    if len(record) > total_limit:
        return ("total-limit-exceeded", "message is %d bytes, log_message_max_length is %d" % (len(record), total_limit))
    exact = [full_text(a) for a in alts if fits(a, ds_limit, total_limit)]
    if exact:
        # (an alternative that fits must be produced exactly; if only the 'stop' variant fits, 'continue' may still overflow)
        if record in exact:
            return None
        if len(exact) == len(alts):
            e = exact[-1]
            n = 0
            while n < min(len(e), len(record)) and e[n] == record[n]:
                n += 1
            cls = "truncated" if e.startswith(record) else ("extra-bytes" if record.startswith(e) else "differs")
            return ("expansion-" + cls, "full expansion fits the limits but the record differs at byte %d (expected %d bytes, got %d)" % (n, len(e), len(record)))
    # overflow somewhere: which pieces get dropped is open; only the strict obligations are asserted
    worst = None
    for a in alts:
        bad = overflow_check(record, a, ds_limit)
        if bad is None:
            return None
        worst = bad
    return worst


def overflow_check(record, pieces, ds_limit):
    """Sound only for what it can decide: per-source cap for marker pieces, and full order/prefix structure when every
    piece is a run of its own distinct byte."""
    runs = []
    for p in pieces:
        t = p[-1]
        runs.append(t[:1] if t and len(set(t)) == 1 else None)
    allbytes = b"".join(p[-1] for p in pieces)
    for p, r in zip(pieces, runs):
        if p[0] == "ds" and r is not None and allbytes.count(r) == len(p[2]):
            c = record.count(r)
            if c > min(ds_limit, len(p[2])):
                return ("datasource-limit-exceeded", "data source %s contributed %d bytes, datasource_message_max_length is %d" % (p[1], c, ds_limit))
    nonempty = [(p, r) for p, r in zip(pieces, runs) if p[-1]]
    if all(r is not None for _, r in nonempty) and len({r for _, r in nonempty}) == len(nonempty):
        # run-length structure of the record must embed, in order, into the pieces with counts within the caps
        pos = 0
        for p, r in nonempty:
            cap = min(len(p[-1]), ds_limit) if p[0] == "ds" else len(p[-1])
            n = 0
            while pos + n < len(record) and record[pos + n:pos + n + 1] == r:
                n += 1
            if n > cap:
                return ("not-a-prefix-composition", "run of %r is %d bytes, piece allows %d" % (r, n, cap))
            pos += n
        if pos != len(record):
            return ("not-a-prefix-composition", "record has bytes at offset %d that no piece of the expansion explains (or out of order)" % pos)
    return None
