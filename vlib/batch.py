"""Generic batching of vdrive cases: many cases per driver process (each in its own fork block unless told otherwise),
16 driver processes in parallel, findings and statistics merged."""
import os

from .common import Findings, Harness, mkwork, rmwork
from .drive import Script, pmap, run_vdrive


class Batch:
    """Per-batch context handed to the callbacks."""

    def __init__(self, work, prop):
        self.work = work
        self.F = Findings(prop)
        self.st = {}
        self.logf = os.path.join(work, "log")
        self.sock = os.path.join(work, "sock")

    def count(self, k, n=1):
        self.st[k] = self.st.get(k, 0) + n

    # ---- grouping: several consecutive cases share one driver child process (cross-call state becomes observable)
    GROUP_SIZES = [1, 2, 1, 3, 2, 5, 1, 4, 2, 8]

    def begin_case(self, s, c, solo=False, key=None):
        """Opens a fork block for case c unless the current group still has room (and the same key). Returns True if a
        new process was started (process-wide state such as the uid must be set up by the caller then)."""
        if not hasattr(self, "_gleft"):
            self._gleft, self._gopen, self._gkey, self._gtag, self.case_group = 0, False, None, None, {}
        new = False
        if solo or self._gleft <= 0 or not self._gopen or key != self._gkey:
            if self._gopen:
                s.endfork()
            s.fork(c["id"])
            self._gopen, self._gtag, self._gkey = True, c["id"], key
            self._gleft = 1 if solo else self.GROUP_SIZES[c["id"] % len(self.GROUP_SIZES)]
            new = True
        self.case_group[c["id"]] = self._gtag
        return new

    def end_case(self, s, c):
        self._gleft -= 1
        if self._gleft <= 0 and self._gopen:
            s.endfork()
            self._gopen = False

    def finish(self, s):
        if getattr(self, "_gopen", False):
            s.endfork()
            self._gopen = False


def _run(arg):
    prop, bld, batch, bi, root, script_fn, check_fn, opts = arg
    work = os.path.join(root, "b%05d" % bi)
    os.makedirs(work, exist_ok=True)
    os.chmod(work, 0o777)
    B = Batch(work, prop)
    open(B.logf, "a").close()
    os.chmod(B.logf, 0o666)
    s = Script()
    s.sinkfile(B.logf)
    for c in batch:
        script_fn(c, B, s)
    B.finish(s)
    res = run_vdrive(bld, s.text(), work, timeout=opts.get("timeout", 600), asan=opts.get("asan", False),
                     heap=opts.get("heap", False), mtx=opts.get("mtx", True), env_extra=opts.get("env"),
                     exe=opts.get("exe"), preload=opts.get("preload"))
    if res.timeout:
        B.F.inconclusive_case("batch %d timed out: %s" % (bi, getattr(res, "hang_info", "")[:400]))
        B.count("inconclusive", len(batch))
        B.timeout = True
    if res.rc not in (0, None) and not res.timeout and not opts.get("allow_driver_death"):
        # the driver itself died outside a fork block
        B.count("driver_died")
        B.driver_rc = res.rc
    byid = {}
    for e in res.events:
        byid.setdefault(e.get("id", e.get("tag")), []).append(e)
    pid2id = {e["pid"]: e["id"] for e in res.events if e["ev"] == "BEGIN"}
    for e in res.events:
        if e["ev"] == "VTRUE" and e["pid"] in pid2id:
            byid.setdefault(pid2id[e["pid"]], []).append(e)
    B.res = res
    # grouped cases: give every member the CHILD event of its group; if the group's process died, the blame goes to the
    # last member that had begun, and members that never ran are inconclusive
    groups = {}
    for c in batch:
        g = getattr(B, "case_group", {}).get(c["id"])
        if g is not None:
            groups.setdefault(g, []).append(c)
    skip = set()
    for g, members in groups.items():
        if len(members) == 1 and members[0]["id"] == g:
            continue
        ch = [e for e in byid.get(g, []) if e["ev"] == "CHILD" and e.get("tag") == g]
        if not ch:
            continue
        died = bool(ch[0]["signal"] or ch[0].get("timeout") or ch[0].get("status"))
        begun = [m for m in members if any(e["ev"] == "BEGIN" for e in byid.get(m["id"], []))]
        culprit = begun[-1]["id"] if begun else members[0]["id"]
        for m in members:
            evs = byid.setdefault(m["id"], [])
            if m["id"] == g:
                evs[:] = [e for e in evs if not (e["ev"] == "CHILD" and e.get("tag") == g)]
            if not died:
                evs.append(ch[0])
            elif m["id"] == culprit:
                evs.append(ch[0])
            elif m not in begun:
                skip.add(m["id"])
            else:
                evs.append(dict(ch[0], signal=0, timeout=0, status=0))
    for c in batch:
        if c["id"] in skip:
            B.count("inconclusive_not_run")
            continue
        check_fn(c, byid.get(c["id"], []), B)
    B.res = None
    if not opts.get("keep"):
        rmwork(work)
    return B.F, B.st


def run_cases(prop, bld, cases, script_fn, check_fn, batch_size=50, nproc=16, **opts):
    """cases: list of dicts with unique integer 'id'. Returns (Findings, stats)."""
    root = mkwork(prop.lower())
    try:
        batches = [(prop, bld, cases[i:i + batch_size], i // batch_size, root, script_fn, check_fn, opts)
                   for i in range(0, len(cases), batch_size)]
        results = pmap(_run, batches, nproc)
    finally:
        rmwork(root)
    F = Findings(prop)
    tot = {}
    for f, st in results:
        merge_findings(F, f)
        for k, v in st.items():
            if isinstance(v, list):
                tot.setdefault(k, []).extend(v)
            else:
                tot[k] = tot.get(k, 0) + v
    return F, tot


def merge_findings(F, f):
    for k, v in f.viol.items():
        if k in F.viol:
            F.viol[k]["count"] += v["count"]
        else:
            F.viol[k] = v
    F.inconclusive += f.inconclusive


def events_of(evs, kind):
    return [e for e in evs if e["ev"] == kind]


def child_signal(evs):
    ch = events_of(evs, "CHILD")
    return ch[0]["signal"] if ch else 0
