#!/usr/bin/env python3
"""Third round of seeded changes (seeded/<id>/round3/): table of what each change is and needs, runner and meta writer.

  tools/seeded_round3.py run      runs every change through the listed checks (tools/run_seeded.py --copy: a scratch worktree of
                                  /repo's HEAD, /repo itself untouched) and writes seeded/results_round3.json
  tools/seeded_round3.py meta     writes seeded/<id>/round2/meta.json from the table + results + /tmp-independent verification
                                  results (seeded/verified_round3.json, produced by tools/verify_seeded.sh runs)
  tools/seeded_round3.py table    prints the DESIGN.md table
"""
import json
import os
import re
import subprocess
import sys

V = os.path.dirname(os.path.dirname(os.path.abspath(__file__)))

R3 = {
 "C01": [
  dict(n="", what="a new static mutex serialises the whole wrapper (locked in wrapper_init, unlocked in wrapper_exit, held while the sink is written): not covered by the atfork handlers",
       needs="fork() while another thread is inside the wrapper; the child then calls exec", checks="C10,C01", missed=False),
  dict(n="2", what="log message buffer becomes a variable-length array on the caller's stack (log_message_max_length+1 bytes)",
       needs="log_message_max_length near 1 MiB and an exec from a thread with a small stack", checks="C09,C02", missed=True,
       strengthened="C09 stress runs with 256 KiB thread stacks under the largest configurable limits (strengthened on reading the report, before the first run)"),
 ],
 "C02": [
  dict(n="", what="generic registry lookup compares before testing for the end marker: the empty name is 'found' one past the last entry and called through",
       needs="an empty data source / filter / output name (%{}, 'output = :', 'filter_chain = :x')", checks="C02,C13", missed=False),
  dict(n="2", what="reset of the data-source scratch buffer before each call removed: a source that fails without writing (cwd with a deleted directory) has uninitialised heap appended as its error text",
       needs="%{cwd} as the first tag and a removed working directory", checks="C02,C12,C05", missed=False),
 ],
 "C03": [
  dict(n="", what="signal clean-up after the file output's write() uses a blocking sigwait() whenever the write failed, also for errnos that raise no signal",
       needs="file output whose write fails with anything but EFBIG/EPIPE (ENOSPC, EIO, EDQUOT, /dev/full)", checks="C03", missed=False,
       note="the first run hung for an hour: a case that had made itself a session leader survived the group kill and kept the stderr pipe open; the driver runner now kills by work directory and never waits for EOF unboundedly"),
  dict(n="2", what="file output takes flock(LOCK_EX) before writing", needs="another process holding an flock on the log file", checks="C03", missed=True,
       strengthened="C03 natural state 'log file flock()ed by another process' (strengthened on reading the report, before the first run)"),
 ],
 "C04": [
  dict(n="", what="message and newline written with two write() calls", needs="another writer (or the real exec) between the two", checks="C17,C04,C09", missed=False),
  dict(n="2", what="file output's path buffer made static __thread: generateFromFormat appends, so the second call of a thread uses path+path",
       needs="two logged calls by one thread (or a child forked after one)", checks="C04,C11,C06", missed=False),
 ],
 "C05": [
  dict(n="", what="log_message_max_length parser lowers datasource_message_max_length to the message limit, line by line and never undone",
       needs="log_message_max_length given twice, small then large, and a source output between the two", checks="C08,C05,C11", missed=False),
  dict(n="2", what="datasource_message_max_length+1 passed as the *length* limit: every source may contribute one byte more", needs="a data-source output longer than the limit", checks="C05,C06", missed=False),
 ],
 "C06": [
  dict(n="", what="NULL / {NULL} argv handled through a static two-element array shared by all threads", needs="two threads with missing or empty argv inside exec at once", checks="C09,C06", missed=True,
       strengthened="C09 stress mixes NULL and {NULL} argument vectors into every thread's calls (oracle: cmdline falls back to the path)"),
  dict(n="2", what="separator stored directly and the final terminator dropped: joined text that hits the limit exactly at an argument end with more arguments following is left unterminated",
       needs="argv whose joined text is exactly datasource_message_max_length at an argument boundary", checks="C06,C02", missed=False),
 ],
 "C07": [
  dict(n="", what="chain walker's copy of the chain made static: shared by all threads, strtok_r's NULs get overwritten by another thread's copy", needs="two threads in the walker and an element after the dropping one", checks="C09,C07", missed=False),
  dict(n="2", what="#ifdef of the only_root name entry tests the only_tty macro: names and functions out of step when only_tty is switched off", needs="a build with --disable-filter-only_tty", checks="C13,C07", missed=False),
 ],
 "C08": [
  dict(n="", what="a non-boolean error_logging value now reports a parse error, and the constructor resets everything to defaults when the load reports an error: one bad value discards the whole file",
       needs="error_logging = <non-boolean> plus any other option", checks="C08,C11", missed=False),
  dict(n="2", what="'is this the [snoopy] section' cached by the section *pointer* (inih passes the same buffer for every line)", needs="more than one section, or a key before [snoopy]", checks="C08", missed=False),
 ],
 "C09": [
  dict(n="", what="list remove: count-- moved into the branches, missing in the middle-node branch: registry count stays one too high", needs="three overlapping calls, the second to register leaves first", checks="C09", missed=False),
  dict(n="2", what="socket output closes its descriptor twice on the send-failure path", needs="send() failing after a successful connect, and another thread obtaining that descriptor number in between", checks="C09,C16", missed=True,
       strengthened="C09 stress got a bystander thread that never execs and watches its own descriptors, the process umask and the cwd, plus a socket sink whose sends all fail"),
 ],
 "C10": [
  dict(n="", what="getpwuid_r replaced by getpwuid: libc-internal lock held during the lookup, not reset by fork()", needs="%{username} in the format and a fork while another thread is inside the passwd lookup", checks="C10,C09", missed=True,
       strengthened="C10 got a storm arm: threads keep logging while the main thread forks again and again, every openat/read/connect delayed with strace, plus bursts of short-lived processes whose forks land in the very first calls; a stuck child prints its own stack (the arm then found D26 in the unchanged tree). C09's race detector reported the shared static buffer from the start"),
  dict(n="2", what="fork child handler rewritten without the pre-fetched next pointer: reads curNode->next after the node was freed", needs="at least two other threads inside the wrapper at the fork", checks="C10,C16", missed=False),
 ],
 "C11": [
  dict(n="", what="log message buffer static __thread and grow-only, its capacity passed as the length limit: the largest log_message_max_length ever seen stays in force", needs="an earlier call under a larger limit", checks="C11,C05", missed=False),
  dict(n="2", what="config FILE* kept open across calls and rewound: a file replaced by rename() or deleted keeps being read through the old inode", needs="snoopy.ini replaced atomically or removed between calls", checks="C11", missed=False),
 ],
 "C12": [
  dict(n="", what="env data source uses secure_getenv()", needs="the calling program was exec'ed with AT_SECURE=1 (set-uid/set-gid transition)", checks="C12", missed=True,
       strengthened="C12 got a secure-execution arm: a set-uid-root copy of the in-vitro driver started from uid 12345 (LD_PRELOAD is ignored in that mode, so the archive is linked in)"),
  dict(n="2", what="timestamp_ms rounds to the nearest millisecond ((usec+500)/1000): names a millisecond that has not begun, prints 1000 in the last half millisecond", needs="a sub-millisecond part of 500 us or more", checks="C12", missed=True,
       strengthened="C12 brackets timestamp_ms / timestamp_us between two microsecond clock readings (before: only the digit count was checked); strengthened on reading the report"),
 ],
 "C13": [
  dict(n="", what="filter id resolved once per element into a variable that is not reset: an unavailable name later in the chain runs the previous filter", needs="an unknown or switched-off filter name after an available one", checks="C07,C13", missed=False),
  dict(n="2", what="output id 0 treated as 'not found' (0 < id): the first output of the registry falls back to the default", needs="a build without devlog (the first entry then is a usable output)", checks="C13", missed=True,
       strengthened="C13's end-to-end builds now also run the reduced production library through snoopy.ini (every remaining output and filter), and the quick tier has builds with the first outputs / first filter / first data source switched off"),
 ],
 "C14": [
  dict(n="", what="filter argument copied with memcpy into a buffer zeroed once, terminator missing: a later filter with a shorter argument sees the tail of an earlier one", needs="a uid filter that is not first and has a shorter argument than a predecessor", checks="C07,C14", missed=False),
  dict(n="2", what="only_root uses geteuid()", needs="real and effective uid differ", checks="C14", missed=False),
 ],
 "C15": [
  dict(n="", what="name-list tokenizer uses strtok()", needs="two threads in the filter at once, below a listed ancestor", checks="C09,C15", missed=True,
       strengthened="C09's threads can run below a named ancestor (vthreads --ancestor): with the ancestor last in a 111-name exclude_spawns_of list every call must be dropped"),
  dict(n="2", what="comm parsed with one sscanf %31[^)]: stops at the first ')'", needs="an ancestor with ')' in its name", checks="C15", missed=False),
 ],
 "C16": [
  dict(n="", what="umask(0) around the open() of the log file, restored afterwards", needs="two threads inside the file output in the order A-in, B-in, A-out, B-out", checks="C09,C16", missed=True,
       strengthened="the C09 bystander thread reads the process umask from /proc while other threads log"),
  dict(n="2", what="setDefaults() on a parse error clears the *_malloced flags of strings already duplicated: up to five blocks leak per call", needs="a snoopy.ini with a string option and a syntactically invalid line", checks="C16,C11", missed=False),
 ],
 "C17": [
  dict(n="", what="log descriptor closed twice", needs="another thread's open() handing out the same number between the two closes", checks="C17,C09", missed=False),
  dict(n="2", what="'if (-1 == fd)' became 'if (fd <= 0)': with descriptor 0 free the record is dropped and the log file stays open as stdin", needs="the logging process has stdin closed", checks="C16,C04,C17", missed=False),
 ],
 "C18": [
  dict(n="", what="stdio replaced by one write() whose short count passes as success", needs="a short write (file size limit / full file system)", checks="C20,C18", missed=False),
  dict(n="2", what="error exits folded into a helper called with (tmpFilePath, filePath) swapped in the write-failed branch: the real file is unlinked", needs="fputs/fflush/fsync of the temporary file failing", checks="C20,C18", missed=False),
 ],
 "C19": [
  dict(n="", what="same short-write slip reached from disable", needs="a short write", checks="C20,C19", missed=False),
  dict(n="2", what="reader re-based on getSmallTextFileContent(): files of 10240 bytes or more are read as empty", needs="an ld.so.preload of 10 KiB or more", checks="C19,C18", missed=True,
       strengthened="C18/C19 inputs include files of 10 KiB .. 200 KiB (4 MiB in thorough) with the entry absent / first / middle / last"),
 ],
 "C20": [
  dict(n="", what="fflush() dropped from the error check and fclose() moved after rename(): the live file is renamed in while its content is still in the stdio buffer", needs="a kill between rename() and the write issued by fclose()", checks="C20", missed=False),
  dict(n="2", what="when rename() fails with EBUSY/EXDEV the live file is rewritten in place", needs="rename failing that way (file is a mount point) and a kill during the rewrite", checks="C20", missed=True,
       strengthened="C20 fails rename with EBUSY/EXDEV/EPERM and then kills before each of the following system calls (two faults)"),
 ],
}


def run():
    res = {}
    out = os.path.join(V, "seeded", "results_round3.json")
    if os.path.exists(out):
        res = json.load(open(out))
    only = sys.argv[2:] or None
    for prop, items in R3.items():
        for it in items:
            key = "%s/round3/patch%s.diff" % (prop, it["n"])
            if only and not any(o in key for o in only):
                continue
            p = subprocess.run([sys.executable, os.path.join(V, "tools", "run_seeded.py"), os.path.join(V, "seeded", key), "--checks", it["checks"], "--copy"],
                               capture_output=True, text=True)
            cur = None
            r = {}
            for line in p.stdout.splitlines():
                m = re.match(r"== (C\d\d) exit=(\d+)", line)
                if m:
                    cur = m.group(1)
                    r[cur] = dict(exit=int(m.group(2)), keys=[])
                m = re.match(r"\s+key=(\S+)", line)
                if m and cur:
                    r[cur]["keys"].append(m.group(1))
            res[key] = r
            print(key, {c: (v["exit"], v["keys"][:2]) for c, v in r.items()}, flush=True)
            json.dump(res, open(out, "w"), indent=1)


def meta():
    res = json.load(open(os.path.join(V, "seeded", "results_round3.json")))
    ver = json.load(open(os.path.join(V, "seeded", "verified_round3.json")))
    for prop, items in R3.items():
        d = os.path.join(V, "seeded", prop, "round3")
        m = dict(property=prop, round=3, changes=[])
        for it in items:
            key = "%s/round3/patch%s.diff" % (prop, it["n"])
            r = res.get(key, {})
            v = ver.get(key, {})
            m["changes"].append(dict(patch="patch%s.diff" % it["n"], demo="demo%s.sh" % it["n"], breaks_property=prop, what=it["what"], needs=it["needs"],
                                     missed_at_first=it["missed"], strengthened=it.get("strengthened"), note=it.get("note"), not_claimed=it.get("not_claimed", False), neutralised_by_later_fix=it.get("neutralised", False),
                                     confirmed=v,
                                     ran="tools/run_seeded.py <patch> --checks %s --copy  (patch applied to a scratch worktree of /repo HEAD, checks run with VERIF_REPO pointing there; same as git -C /repo apply / check / git -C /repo checkout -- .)" % it["checks"],
                                     caught_by={c: x["keys"][:6] for c, x in r.items() if x["exit"] == 1},
                                     not_caught_by=[c for c, x in r.items() if x["exit"] == 0]))
        json.dump(m, open(os.path.join(d, "meta.json"), "w"), indent=1)
    print("round-2 meta written")


def table():
    res = json.load(open(os.path.join(V, "seeded", "results_round3.json")))
    print("| id | change | needs, to manifest | caught by (first key) | history |")
    print("|---|---|---|---|---|")
    for prop, items in R3.items():
        for it in items:
            key = "%s/round3/patch%s.diff" % (prop, it["n"])
            r = res.get(key, {})
            caught = ", ".join("%s (`%s`)" % (c, x["keys"][0].split(":", 1)[1] if x["keys"] else "?") for c, x in r.items() if x["exit"] == 1) or "—"
            hist = "caught as built" if not it["missed"] else ("**not claimed** → " if it.get("not_claimed") else "**missed at first** → ") + it.get("strengthened", "")
            if it.get("note"):
                hist += " (" + it["note"] + ")"
            print("| %s/r3/patch%s | %s | %s | %s | %s |" % (prop, it["n"], it["what"].replace("|", "\\|"), it["needs"].replace("|", "\\|"), caught, hist))


if __name__ == "__main__":
    {"run": run, "meta": meta, "table": table}[sys.argv[1]]()
