"""C16 - the wrapper leaves no residue in the calling process.

Before the call, at the instant the real exec is entered, and after a failed exec returned, the driver samples:
/proc/self/fd (with targets and close-on-exec flags), the live-allocation set of an interposed allocator (blocks whose
allocation backtrace passes through libsnoopy.so), environ pointer + content hash, cwd (dev/ino + path), umask, signal
mask, all 64 sigactions, and Snoopy's mutex depth.  Oracle: all identical at the three points; after one warm-up call,
nothing Snoopy allocated during a call is live at the real exec, and the count of live Snoopy blocks does not grow over
2..200 further calls.  Error paths come from natural sink states and (second arm) strace-injected syscall failures.
"""
import os
import socket
import time

from vlib import build as vbuild
from vlib.batch import events_of, merge_findings, run_cases
from vlib.common import Findings, Harness, log, rng_for, short, tier, write_evidence
from vlib.drive import Script, ensure_harness
from checks import ini_gen
from checks.c01 import ARGV_KINDS, ENV_KINDS, gen_env, gen_vec

PROP = "C16"
U = 12345
STATE_KEYS = ["fds", "environ_ptr", "environ_hash", "cwd_id", "cwd", "umask", "sigmask", "sigact", "sigpend", "ids"]


def norm_state(key, v):
    """descriptor lists name each descriptor by the link text of /proc/self/fd/N: when somebody else unlinks that file meanwhile
    (it happened to /dev/null during one run) the kernel appends ' (deleted)' - the descriptor itself is the same one"""
    if key == "fds" and isinstance(v, str):
        return v.replace(" (deleted)", "")
    return v


def gen_conf(rng, B):
    A = B.logf
    k = rng.random()
    lines = ["[snoopy]"]
    if k < 0.30:
        # every data source, a few at a time
        ds = rng.sample(ini_gen.ALL_DS, rng.randrange(1, 10))
        lines.append('message_format = "' + " ".join("%{" + d + "}" for d in ds) + '"')
    elif k < 0.40:
        lines.append('message_format = "' + ",".join("%{" + d + "}" for d in ini_gen.ALL_DS)[:900] + '"')
    else:
        lines.append("message_format = " + rng.choice(['"%{cmdline}"', '"%{nosuch}"', '"%{failure} %{cmdline}"', '"%{cmdline"', '""', '"%{env_all}"', '"x"',
                                                        # data sources on their own error paths: result does not fit their buffer, empty result, unknown argument
                                                        '"%{datetime:%c | %c | %c | %c | %c | %c} %{cmdline}"', '"%{datetime:%%} %{datetime:} %{cmdline}"', '"%{cgroup:nosuchcontroller} %{env:} %{cmdline}"']))
    out = rng.choice(["file:" + A, "file:" + A, "file:" + B.work + "/nodir/x", "file:/dev/full", "file:" + B.work + "/rootonly", "file:" + B.work,
                      "file:" + B.work + "/t-%{datetime:%s}-%{pid}", "socket:" + B.sock, "socket:" + B.work + "/absent", "socket:" + B.work + "/fullsock",
                      "devlog", "devtty", "devnull", "stdout", "stderr", "noop", "nosuch:x", ":", "file:", "socket:"])
    lines.append("output = " + out)
    if rng.random() < 0.5:
        lines.append('filter_chain = "' + rng.choice(["only_root", "only_uid:0,%d" % U, "exclude_uid:5", "exclude_spawns_of:nope,bash2", "exclude_spawns_of:", "only_tty",
                                                       "noop;nosuch;only_uid:0;only_uid:%d" % U, "exclude_spawns_of:vdrive", "exclude_uid:0,%d" % U]) + '"')
    for _ in range(rng.randrange(0, 5)):
        o = rng.choice(ini_gen.OPTIONS)
        v = ini_gen.option_value(rng, o, B.work).replace(b"\0", b"").decode("latin-1")
        if "\n" in v or "\r" in v or len(v) > 400:
            continue
        lines.append("%s = %s" % (o, v))
    if rng.random() < 0.3:        # duplicate options
        for o in rng.sample(["message_format", "filter_chain", "syslog_ident", "output", "syslog_level"], 2):
            lines.append("%s = %s" % (o, {"message_format": '"dup %{cmdline}"', "filter_chain": '"noop"', "syslog_ident": '"dup"', "output": "file:" + A,
                                         "syslog_level": "DEBUG"}[o]))
    if rng.random() < 0.2:
        lines.append("error_logging = yes")
    return ("\n".join(lines) + "\n").encode("latin-1")


def make_runs(tr, n):
    rng = rng_for(PROP, tr)
    runs = []
    for i in range(n):
        runs.append(dict(id=i + 1, sub=rng.randrange(1 << 30), ncalls=rng.choice([2, 2, 3, 5, 10, 40, 200 if tr == "thorough" else 60]),
                         uid=rng.choice([0, 0, U]), devlog=rng.choice(["live", "live", "absent"]), stdin=rng.choice(["null", "pty", "closed", "pipe"]),
                         ctty=rng.random() < 0.3))
    for r in runs:
        # more caller state that has to survive: blocked signals (SIGPIPE among them), ignored signals, a stale errno
        r["sigblock"] = [sg for sg in (13, 10, 17, 1) if rng.random() < 0.25]
        r["sigign"] = [sg for sg in (13, 1, 12) if rng.random() < 0.15]
        r["preerrno"] = rng.choice([0, 0, 34, 4, 2, 22])
        # stdout / stderr as a pipe whose reader is gone: a write there raises SIGPIPE, which stays *pending* for a caller that has it blocked
        r["closeout"] = rng.choice([None] * 5 + ["stdout", "stderr"])
        if r["closeout"] and 13 not in r["sigblock"] and rng.random() < 0.6:
            r["sigblock"].append(13)
        r["confstate"] = rng.choice(["file"] * 8 + ["absent", "unreadable", "directory"])
    return runs


def plan(r, B):
    import random
    rng = random.Random(r["sub"])
    conf = gen_conf(rng, B)
    if r.get("closeout") and r["sub"] % 4:
        # the output that writes to the descriptor whose reader is gone
        conf = b"\n".join((b"output = " + r["closeout"].encode()) if ln.startswith(b"output = ") else ln for ln in conf.split(b"\n"))
    calls = []
    for k in range(r["ncalls"] + 1):
        tok = "R%dK%d" % (r["id"], k)
        calls.append(dict(fn=rng.choice(["execv", "execve"]), argv=gen_vec(rng, rng.choice(ARGV_KINDS), tok), envp=gen_env(rng, rng.choice(ENV_KINDS), tok),
                          path=b"/bin/" + tok.encode()))
    return conf, calls


def script_fn(r, B, s):
    if not getattr(B, "prepared", False):
        B.prepared = True
        ro = os.path.join(B.work, "rootonly")
        open(ro, "w").close()
        os.chmod(ro, 0o600)
        # a datagram socket whose queue is full and never read
        fs = socket.socket(socket.AF_UNIX, socket.SOCK_DGRAM)
        fs.bind(os.path.join(B.work, "fullsock"))
        os.chmod(os.path.join(B.work, "fullsock"), 0o777)
        snd = socket.socket(socket.AF_UNIX, socket.SOCK_DGRAM)
        snd.setblocking(False)
        try:
            while True:
                snd.sendto(b"x" * 2000, os.path.join(B.work, "fullsock"))
        except OSError:
            pass
        B.keep = (fs, snd)
    conf, calls = plan(r, B)
    s.fork(r["id"])
    s.raw("stdin " + r["stdin"])
    if r["ctty"]:
        s.raw("ctty")
    if r["uid"]:
        s.raw("uid %d %d %d" % (r["uid"], r["uid"], r["uid"]))
    s.raw("envset " + Script.vec([b"HOME=/root", b"LOGNAME=lg", b"TZ=UTC", b"BIG=" + b"B" * 3000]))
    for sg in r["sigblock"]:
        s.raw("sigblock %d" % sg)
    for sg in r["sigign"]:
        s.raw("sigign %d" % sg)
    s.raw("preerrno %d" % r["preerrno"])
    if r.get("closeout"):
        s.raw("closeout " + r["closeout"])
    s.conf(conf)
    if r["confstate"] == "absent":
        s.raw("confrm")
    elif r["confstate"] == "unreadable":
        s.raw("confmode 000")
    elif r["confstate"] == "directory":
        s.raw("confdir")
    base = r["id"] * 1000
    c = calls[0]
    # warm-up: libc one-time caches (NSS, tz data, stdio buffers).  Two calls: one with a fixed non-empty command line (so that
    # the message is not empty and the output, its path template and the ident really run) and one with the generated shape
    s.call(base + 999, c["fn"], b"/bin/warmup", [b"warmup", b"argument"], [b"E=1"], -1, 2)
    s.call(base, c["fn"], c["path"], c["argv"], c["envp"], -1, 2)
    s.raw("automark 1")
    for k, c in enumerate(calls[1:], 1):
        s.call(base + k, c["fn"], c["path"], c["argv"], c["envp"], -1, 2)
    s.endfork()


def symbolize(bld, bt):
    """'s+0x1234' frames -> function names via addr2line on the build's libsnoopy.so."""
    import subprocess
    addrs = [f[2:] for f in bt if f.startswith("s+")]
    if not addrs:
        return []
    try:
        out = subprocess.run(["addr2line", "-f", "-e", bld.lib] + addrs, capture_output=True, text=True, timeout=20).stdout.split("\n")
        return [out[i] + "@" + os.path.basename(out[i + 1]) for i in range(0, len(out) - 1, 2)]
    except Exception:
        return addrs


def check_fn(r, evs, B):
    conf, calls = plan(r, B)
    base = r["id"] * 1000
    wit = dict(config=conf.decode("latin-1"), ncalls=r["ncalls"], uid=r["uid"], stdin=r["stdin"], ctty=r["ctty"])
    ch = events_of(evs, "CHILD")
    if ch and (ch[0]["signal"] or ch[0].get("timeout")):
        # crashes / hangs are C02's and C03's verdicts; here the run is simply not usable
        B.count("runs_died")
        B.F.inconclusive_case("run %d died (signal %d)" % (r["id"], ch[0]["signal"]))
        return
    mine = [e for e in B.res.events if e.get("id") is not None and base <= e["id"] < base + 1000 and e["ev"] in ("BEGIN", "REAL", "END")]
    byid = {}
    for e in mine:
        byid.setdefault(e["id"], {})[e["ev"]] = e
    B.count("runs")
    first_live = None
    last_live = None
    for k in [999] + list(range(0, r["ncalls"] + 1)):     # 999 = the fixed first warm-up call: everything but the heap is judged there too
        t = byid.get(base + k, {})
        if set(t) != {"BEGIN", "REAL", "END"}:
            raise Harness("incomplete events for run %d call %d: %s" % (r["id"], k, sorted(t)))
        b, rl, en = t["BEGIN"], t["REAL"], t["END"]
        B.count("calls")
        for key in STATE_KEYS:
            for where, ev in (("at-real-exec", rl), ("after-return", en)):
                if norm_state(key, ev.get(key)) != norm_state(key, b.get(key)):
                    what = key
                    detail = "%r -> %r" % (b.get(key), ev.get(key))
                    if key == "fds":
                        bs, es = set(b[key].split("|")), set(ev[key].split("|"))
                        detail = "appeared %s, disappeared %s" % (sorted(es - bs), sorted(bs - es))
                    B.F.violation("C16:%s-changed:%s" % (what, where), "call %d of run: %s differs %s: %s" % (k, key, where, detail[:300]), dict(wit, call=k))
        if "mtx_depth" in rl and rl["mtx_depth"] != 0:
            B.F.violation("C16:lock-held-at-real-exec", "mutex depth %d at real exec" % rl["mtx_depth"], dict(wit, call=k))
        if "mtx_depth" in en and en["mtx_depth"] != 0:
            B.F.violation("C16:lock-held-after-return", "the calling thread still holds the library's mutex (depth %d) after the call has returned" % en["mtx_depth"], dict(wit, call=k))
        hp = rl.get("heap")
        if hp is None:
            raise Harness("allocator monitor not loaded")
        if 1 <= k < 999:
            B.count("heap_samples")
            if hp["since_mark_snoopy"] > 0:
                fr = symbolize(B.bld, hp["blocks"][0]["bt"]) if hp["blocks"] else []
                site = next((f for f in fr if f and not f.startswith("?")), "?")
                B.F.violation("C16:heap-live-at-real-exec:%s" % site.split("@")[0], "call %d: %d block(s) / %d bytes allocated by Snoopy during this call are still live when the real exec is entered (allocated via %s)" % (
                    k, hp["since_mark_snoopy"], hp["since_mark_snoopy_bytes"], fr[:4]), dict(wit, call=k, blocks=hp["blocks"][:6], frames=fr))
            e_hp = en.get("heap")
            if e_hp.get("snoopy_bad_frees"):
                B.F.violation("C16:invalid-free", "call %d: the library freed %d block(s) that were not live" % (k, e_hp["snoopy_bad_frees"]), dict(wit, call=k))
            if k == 1:
                first_live = e_hp["snoopy_live"]
            last_live = e_hp["snoopy_live"]
    if first_live is not None and last_live > first_live:
        B.F.violation("C16:heap-growth", "live Snoopy allocations grew from %d to %d over %d calls" % (first_live, last_live, r["ncalls"]), wit)



# ------------------------------------------------------------------ second arm: error paths reached by injected syscall failures

def inject_scenarios(work):
    A = work + "/log"
    allds = ",".join("%{" + d + "}" for d in ini_gen.ALL_DS)[:900]
    return [
        ("file/all", '[snoopy]\nmessage_format = "%s"\noutput = file:%s\n' % (allds, A), []),
        ("file-template/cmdline", '[snoopy]\nmessage_format = "%%{cmdline}"\noutput = file:%s/t-%%{datetime:%%s}-%%{pid}\n' % work, []),
        ("devlog/all", '[snoopy]\nmessage_format = "%s"\noutput = devlog\nsyslog_ident = "id-%%{username}"\n' % allds, []),
        ("socket/default", '[snoopy]\noutput = socket:%s/sock\nfilter_chain = "exclude_spawns_of:x,y;only_uid:0"\n' % work, []),
        ("stdout/tty-sources", '[snoopy]\nmessage_format = "%{tty} %{tty_username} %{login} %{rpname} %{cgroup:1} %{domain}"\noutput = stdout\n', ["stdin pty"]),
        ("devtty/cmdline", '[snoopy]\nmessage_format = "%{cmdline} %{cwd} %{egroup}"\noutput = devtty\n', ["ctty"]),
    ]


def inject_run(arg):
    import re
    from checks.c03 import ERRNOS, SKIP
    from vlib.drive import run_vdrive
    bld, name, conf, pre, root, idx, per_pos = arg
    work = os.path.join(root, "i%02d" % idx)
    os.makedirs(work, exist_ok=True)
    os.chmod(work, 0o777)
    conf = conf.replace("WORKDIR", work)
    F = Findings(PROP)
    st = dict(inject_scenarios=1, injected=0, fired=0, inconclusive=0)
    LINE = re.compile(r"^(?:\d+\s+)?(\w+)\((.*)$")

    def script():
        s = Script()
        for p in pre:
            s.raw(p)
        s.raw("envset " + Script.vec([b"HOME=/root", b"LOGNAME=lg", b"TZ=UTC"]))
        s.conf(conf.encode())
        s.call(1, "execve", b"/bin/warm", [b"warm"], [b"E=1"], -1, 2)
        s.raw("automark 1")
        s.call(2, "execve", b"/bin/c16i", [b"c16i", b"arg"], [b"E=1"], -1, 2)
        s.call(3, "execve", b"/bin/c16j", [b"c16j"], [b"E=1"], -1, 2)
        return s.text()

    def run(inject=None):
        tr = os.path.join(work, "trace")
        stopts = ["-o", tr, "-s", "60"]
        if inject:
            stopts += ["-e", "inject=" + inject]
        res = run_vdrive(bld, script(), work, strace=stopts, timeout=60, heap=True, mtx=False)
        with open(tr, "r", errors="replace") as f:
            lines = f.read().splitlines()
        # window of call 2: syscalls between its BEGIN marker and its ENTER marker
        counts = {}
        win = None
        window = []
        for l in lines:
            m = LINE.match(l)
            if not m:
                continue
            nm, rest = m.group(1), m.group(2)
            counts[nm] = counts.get(nm, 0) + 1
            if nm == "write" and rest.startswith("199,"):
                if '\\"BEGIN\\",\\"id\\":2,' in rest:
                    win = []
                elif '\\"ENTER\\",\\"id\\":2}' in rest and win is not None:
                    window = win
                    win = None
                continue
            if win is not None:
                win.append((counts[nm], nm, rest))
        return res, window

    res, base = run()
    if not base:
        raise Harness("injection arm: no call window found for scenario %s" % name)
    targets = [(k, nm) for k, nm, _ in base if nm not in SKIP and nm != "close" and ERRNOS.get(nm)]
    ei = 0
    for k, nm in targets:
        errs = ERRNOS[nm]
        for e in (errs if per_pos == "all" else [errs[ei % len(errs)]]):
            ei += 1
            res2, w2 = run("%s:error=%s:when=%d" % (nm, e, k))
            st["injected"] += 1
            if not any("(INJECTED)" in rest for _, _, rest in w2):
                st["inconclusive"] += 1
                continue
            st["fired"] += 1
            ev = {(x["ev"], x.get("id")): x for x in res2.events if x["ev"] in ("BEGIN", "REAL", "END")}
            wit = dict(scenario=name, config=conf, injection="%s:error=%s:when=%d" % (nm, e, k), window=[("%s(%s" % (a, b))[:140] for _, a, b in w2][-30:])
            for cid in (2, 3):
                b, rl, en = ev.get(("BEGIN", cid)), ev.get(("REAL", cid)), ev.get(("END", cid))
                if not (b and rl and en):
                    F.inconclusive_case("call %d incomplete after %s" % (cid, wit["injection"]))
                    continue
                for key in STATE_KEYS:
                    for where, x in (("at-real-exec", rl), ("after-return", en)):
                        if norm_state(key, x.get(key)) != norm_state(key, b.get(key)):
                            detail = "%r -> %r" % (b.get(key), x.get(key))
                            if key == "fds":
                                bs, es = set(b[key].split("|")), set(x[key].split("|"))
                                detail = "appeared %s, disappeared %s" % (sorted(es - bs), sorted(bs - es))
                            F.violation("C16:inject:%s-changed:%s:%s" % (key, where, nm), "after %s on %s (scenario %s): %s differs %s: %s" % (e, nm, name, key, where, detail[:300]), wit)
                hp = rl.get("heap")
                if hp and hp["since_mark_snoopy"] > 0:
                    fr = symbolize(bld, hp["blocks"][0]["bt"]) if hp["blocks"] else []
                    site = next((f for f in fr if f and not f.startswith("?")), "?")
                    F.violation("C16:inject:heap-live-at-real-exec:%s" % site.split("@")[0], "after %s on %s (scenario %s) %d block(s) / %d bytes allocated by Snoopy during the call are still live at the real exec (allocated via %s)" % (
                        e, nm, name, hp["since_mark_snoopy"], hp["since_mark_snoopy_bytes"], fr[:4]), dict(wit, frames=fr))
    rmtree(work)
    return F, st


def fork_arm(bld, tr, F, tot):
    """third arm: the child of a fork() made while other threads of the process are inside the wrapper.  Those threads do
    not exist in the child; what the library holds for them must not stay allocated there.  Measured with the allocator
    monitor: Snoopy's live blocks in the child after its own complete call vs. the steady state of a single-threaded
    process after one complete call (same process, before the threads start)."""
    from vlib.common import mkwork, rmwork
    from vlib.drive import pmap
    from checks.c10 import run_fork
    root = mkwork("c16f")
    # second configuration: every string option given twice (the second value replaces - and releases - the first)
    DUP = 'message_format = "first %{cmdline}"\noutput = file:/dev/null\nfilter_chain = "noop"\nfilter_chain = "exclude_uid:77"\nsyslog_ident = "one"\nsyslog_ident = "two"\n'
    jobs = []
    idx = 1
    for extra in ("", DUP):
        probe = run_fork((bld, 99999, "in-lock", 1, "file", 0, root, 0, True, extra))
        if "points_seen" not in probe or probe["points_seen"] < 4:
            rmwork(root)
            raise Harness("fork arm: could not discover stop points: %s" % probe)
        npoints = probe["points_seen"]
        tot["fork.stop_points"] = tot.get("fork.stop_points", 0) + npoints
        for k in range(1, npoints + 1):
            for victims in ((1, 3) if tr == "quick" else (1, 2, 3, 4)):
                if extra and victims != 1:
                    continue
                jobs.append((bld, k, "any", victims, "file", 0, root, idx, True, extra)); idx += 1
    for job, ev in zip(jobs, pmap(run_fork, jobs, 12)):
        tot["fork.scenarios"] = tot.get("fork.scenarios", 0) + 1
        if ev.get("harness_timeout") or ev.get("no_event") or ev.get("parked", 0) < 1 or not ev.get("child_done"):
            tot["fork.inconclusive"] = tot.get("fork.inconclusive", 0) + 1
            continue
        ch, base = ev.get("child_heap"), ev.get("heap_base", -1)
        if ch is None or base is None or base < 0:
            tot["fork.inconclusive"] = tot.get("fork.inconclusive", 0) + 1
            continue
        tot["fork.child_heap_samples"] = tot.get("fork.child_heap_samples", 0) + 1
        wit = {k: v for k, v in ev.items() if k not in ("records", "child_blocks", "child_bad_free_bt")}
        desc = "child forked while %d other thread(s) were stopped inside the wrapper (%s, point %d)" % (ev["victims"], ev["stop_kind"], ev["stop_at"])
        # (a) what the library keeps a reference to: its thread repository must hold the child's own thread only
        recs = [x for x in ev.get("records", []) if x.startswith("/bin/CHILDz|")]
        if len(recs) == 1:
            tot["fork.child_records"] = tot.get("fork.child_records", 0) + 1
            if recs[0].split("|")[-1] != "1":
                F.violation("C16:fork-child:entries-of-threads-that-do-not-exist-kept", "%s: the library tracks %s threads in the child during its call, the child has one" % (
                    desc, recs[0].split("|")[-1]), wit)
        # (a') the child's fork handler and its own call must only free blocks that are live (a block the vanished thread had
        # already released at the instant of the fork, but still pointed to, must not be released again)
        if ev.get("child_bad_frees"):
            where = [symbolize(bld, bt)[:3] for bt in ev.get("child_bad_free_bt", [])[:2]]
            F.violation("C16:fork-child:double-free", "%s: the library freed %d block(s) in the child that were not live (double free: the heap of the child is corrupted); freed at %s" % (
                desc, ev["child_bad_frees"], where), dict(wit, freed_at=where))
        # (b) strings owned by a configuration (allocated by the config file value handlers) are referenced from a repository
        # entry from the moment they are allocated until the owner's cleanup frees them: one that is still live after the
        # child's own complete call belonged to an entry of a vanished thread and was not released with it.  Blocks a vanished
        # thread referenced from its stack only (message buffers, parser line buffers) cannot be released by anybody: counted,
        # not judged.
        # Judged only when the single other thread stayed parked at its stop point during the fork (a thread running freely
        # can be inside a value handler holding a temporary copy)
        owned, temp = [], 0
        still = ev["victims"] == 1 and not ev.get("fork_waited_for_lock")
        if still:
            tot["fork.child_heap_judged"] = tot.get("fork.child_heap_judged", 0) + 1
        for b in (ev.get("child_blocks", []) if still else []):
            fr = symbolize(bld, b["bt"])
            inner = next((f for f in fr if f and not f.startswith("?")), "?")
            if inner.startswith("snoopy_configfile_parseValue"):
                owned.append((b["sz"], fr[:3]))
            else:
                temp += 1
        tot["fork.child_stack_only_temporaries"] = tot.get("fork.child_stack_only_temporaries", 0) + temp
        if owned:
            F.violation("C16:fork-child:configuration-strings-of-vanished-threads-retained",
                        "%s: %d configuration string(s) of the other threads are still allocated in the child after its own complete call: %s" % (desc, len(owned), owned[:3]),
                        dict(wit, blocks=owned))
    rmwork(root)


def rmtree(d):
    import shutil
    shutil.rmtree(d, ignore_errors=True)


def _script(r, B, s):
    return script_fn(r, B, s)


def _check(r, evs, B):
    B.bld = _BLD[0]
    return check_fn(r, evs, B)


_BLD = [None]


def main():
    t0 = time.time()
    tr = tier()
    ensure_harness()
    n = 500 if tr == "quick" else 12000
    runs = make_runs(tr, n)
    F = Findings(PROP)
    tot = {}
    builds = {}
    for v in ("plain", "plain-nts"):
        bld = vbuild.build(v)
        _BLD[0] = bld
        builds[v] = bld.treehash
        f, st = run_cases(PROP, bld, runs, _script, _check, batch_size=8, heap=True, mtx=True,
                          env={"VREC_DEVLOG_ABSENT": "0"})
        for k in list(f.viol):
            f.viol[k]["desc"] = "[%s build] %s" % (v, f.viol[k]["desc"])
        merge_findings(F, f)
        for k, x in st.items():
            tot["%s.%s" % (v, k)] = x
    # second arm: error paths forced by injected syscall failures (plain build)
    from vlib.common import mkwork, rmwork
    from vlib.drive import pmap
    bld = vbuild.build("plain")
    root = mkwork("c16i")
    jobs = [(bld, n_, c_, p_, root, i, 1 if tr == "quick" else "all") for i, (n_, c_, p_) in enumerate(inject_scenarios("WORKDIR"))]
    for f, st in pmap(inject_run, jobs, 8):
        merge_findings(F, f)
        for k, x in st.items():
            tot["inject." + k] = tot.get("inject." + k, 0) + x
    rmwork(root)
    fork_arm(bld, tr, F, tot)
    if (tot.get("fork.child_heap_judged", 0) == 0 or tot.get("fork.child_records", 0) == 0) and F.n_unlisted() == 0:
        raise Harness("fork arm observed nothing: %s" % tot)
    if (tot.get("inject.fired", 0) == 0) and F.n_unlisted() == 0:
        raise Harness("injection arm: no injected fault fired: %s" % tot)
    for v in builds:
        if (tot.get(v + ".heap_samples", 0) == 0) and F.n_unlisted() == 0:
            raise Harness("no heap samples for %s" % v)
    died = sum(x for k, x in tot.items() if k.endswith("runs_died"))
    if (died > len(runs) * 2 // 50) and F.n_unlisted() == 0:
        raise Harness("too many runs died (%d): crash/hang defects must be dealt with first (C02/C03)" % died)
    rc = F.report()
    write_evidence(PROP, "exploration", tr, dict(
        evaluations=sum(r["ncalls"] + 1 for r in runs) * 2, distinct_nontrivial=len(runs),
        rule="runs of 1 warm-up + 2..200 calls under a generated config (every data source, every output incl. unreachable/full/unwritable sinks, filters incl. empty arguments, invalid and duplicate options, error_logging) x uid {0,12345} x stdin {null,pty,closed,pipe} x controlling tty; distinct = runs",
        samples=[dict(ncalls=r["ncalls"], uid=r["uid"], stdin=r["stdin"]) for r in runs[:4]],
        monitor_events=tot, observed_state=STATE_KEYS + ["heap(live set by backtrace attribution)", "mtx_depth"], builds=builds,
        inconclusive=died, violation_keys=sorted(F.viol)),
        time.time() - t0, F.n_unlisted(),
        ["heap blocks are attributed to Snoopy when one of the first 10 backtrace frames lies in libsnoopy.so; libc one-time caches are absorbed by the warm-up call",
         "second arm: every I/O syscall (except close, whose injected failure leaves the descriptor open by construction) between wrapper entry and real exec is failed once under strace, same residue oracle"])
    log("[C16] %d runs %s %.1fs" % (len(runs), tot, time.time() - t0))
    return rc
