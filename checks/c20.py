"""C20 - ld.so.preload is never left half-written.

fault_enumeration with strace: a baseline trace of `snoopyctl enable|disable` gives the ordered syscall list; then the
process is SIGKILLed immediately before syscall k for every k (= immediately after syscall k-1), and every
write/close/fsync/rename-type call is failed with ENOSPC / EIO / EDQUOT.  A run only counts if the trace proves the
injection fired at the intended call.  Oracle: file bytes in {complete old content, complete new content}.
"""
import os
import re
import subprocess
import time

from vlib import build as vbuild
from vlib.common import Findings, Harness, log, mkwork, rmwork, rng_for, short, tier, write_evidence
from vlib.drive import pmap

PROP = "C20"
SYSCALL_RE = re.compile(r"^\d+\s+(\w+)\(")
WRITE_TYPE = ("write", "pwrite64", "writev", "close", "fsync", "fdatasync", "rename", "renameat", "renameat2", "ftruncate",
              "openat", "fchmod", "fchown", "link", "linkat", "unlink", "unlinkat", "lseek")
ERRS = ("ENOSPC", "EIO", "EDQUOT")


def initial_contents(P, tr):
    foreign = b"/usr/lib/libfoo.so\n"
    big5k = b"".join(b"/usr/lib/lib%04d.so\n" % i for i in range(250))
    big70k = b"".join(b"/opt/vendor/lib/libvendor-%05d.so\n" % i for i in range(2200))
    en = {
        "absent": None,
        "empty": b"",
        "one-foreign": foreign,
        "unterminated": b"/usr/lib/libfoo.so",
        "three-lines": b"# header\n/usr/lib/liba.so\n/usr/lib/libb.so\n",
        "5k": big5k,
        "70k": big70k,
    }
    di = {
        "only": P + b"\n",
        "first": P + b"\n/usr/lib/liba.so\n/usr/lib/libb.so\n",
        "middle": b"/usr/lib/liba.so\n" + P + b"\n/usr/lib/libb.so\n",
        "last": b"/usr/lib/liba.so\n/usr/lib/libb.so\n" + P + b"\n",
        "last-unterminated": b"/usr/lib/liba.so\n" + P,
        "5k-middle": big5k[:2500] + P + b"\n" + big5k[2500:],
        "70k-last": big70k + P + b"\n",
    }
    if tr == "quick":
        for k in ("5k",):
            en.pop(k)
        for k in ("5k-middle",):
            di.pop(k)
    return [("enable", n, c) for n, c in en.items()] + [("disable", n, c) for n, c in di.items()]


class Runner:
    def __init__(self, bld, work):
        self.bld = bld
        self.work = work
        self.file = os.path.join(work, "ld.so.preload")
        self.env = {"PATH": "/usr/bin:/bin", "SNOOPY_TEST_LD_SO_PRELOAD_PATH": self.file,
                    "SNOOPY_TEST_LIBSNOOPY_SO_PATH": bld.lib}

    def reset(self, content):
        for f in os.listdir(self.work):
            if f != "trace":
                try:
                    os.unlink(os.path.join(self.work, f))
                except OSError:
                    pass
        if content is not None:
            with open(self.file, "wb") as f:
                f.write(content)

    def get(self):
        try:
            with open(self.file, "rb") as f:
                return f.read()
        except FileNotFoundError:
            return None

    def run_limited(self, action, limit, ignore_sigxfsz):
        """no tracer: the run gets RLIMIT_FSIZE=limit, so the write crossing it returns a short count and the next one fails
        with EFBIG (SIGXFSZ ignored) or the process dies of SIGXFSZ at that write (default disposition)."""
        import resource
        import signal

        def pre():
            signal.signal(signal.SIGXFSZ, signal.SIG_IGN if ignore_sigxfsz else signal.SIG_DFL)
            resource.setrlimit(resource.RLIMIT_FSIZE, (limit, limit))
        r = subprocess.run([self.bld.snoopyctl, action], env=self.env, capture_output=True, timeout=60, preexec_fn=pre)
        return r.returncode

    def run(self, action, inject=None, closed=None):
        """closed: descriptor numbers the traced command is started without (strace itself keeps its own: the closing happens
        in a small sh wrapper that then execs snoopyctl)"""
        tr = os.path.join(self.work, "trace")
        cmd = ["strace", "-f", "-o", tr]
        for inj in ([inject] if isinstance(inject, str) else (inject or [])):
            cmd += ["-e", "inject=" + inj]
        if closed:
            redir = " ".join("%d>&-" % fd if fd else "0<&-" for fd in closed)
            cmd += ["/bin/sh", "-c", 'exec "$0" "$1" ' + redir, self.bld.snoopyctl, action]
        else:
            cmd += [self.bld.snoopyctl, action]
        r = subprocess.run(cmd, env=self.env, capture_output=True, timeout=60)
        with open(tr, "r", errors="replace") as f:
            lines = f.read().splitlines()
        return r.returncode, lines


def syscalls(lines):
    out = []
    for l in lines:
        m = SYSCALL_RE.match(l)
        if m:
            out.append(m.group(1))
    return out


def do_scenario(arg):
    bld, action, name, content, root, idx, tr = arg
    work = os.path.join(root, "s%02d" % idx)
    os.makedirs(work, exist_ok=True)
    R = Runner(bld, work)
    F = Findings(PROP)
    st = dict(kill_runs=0, kill_fired=0, err_runs=0, err_fired=0, inconclusive=0, ended_old=0, ended_new=0, exit0_after_failed_write=0, fsize_runs=0, fsize_failed_run=0, history_runs=0)
    R.reset(content)
    rc, lines = R.run(action)
    new = R.get()
    if rc != 0:
        raise Harness("baseline %s on %s failed rc=%d" % (action, name, rc))
    if new == content:
        raise Harness("baseline %s on %s did not change the file" % (action, name))
    seq = syscalls(lines)
    acceptable = [content, new]
    if content in (None, b""):
        acceptable += [None, b""]

    def verdict(kind, where, after, rc2):
        if after in acceptable or (after is None and None in acceptable):
            if after == new:
                st["ended_new"] += 1
            else:
                st["ended_old"] += 1
            return
        oldb = content or b""
        if after == b"" or after is None:
            cls = "empty-file"
        elif new.startswith(after):
            cls = "truncated-new-content"
        elif oldb.startswith(after):
            cls = "truncated-old-content"
        else:
            cls = "mixed-content"
        F.violation("C20:%s:%s:%s" % (action, kind, cls),
                    "%s of %r: %s at %s left %d bytes (%s); old %d bytes, new %d bytes" % (
                        action, name, kind, where, len(after or b""), cls, len(oldb), len(new)),
                    dict(action=action, initial=name, injection=where, exit=rc2,
                         after=(after or b"")[:300].decode("latin-1"), old_len=len(oldb), new_len=len(new)))

    # kill before every syscall k
    counts = {}
    points = []
    for k, nm in enumerate(seq):
        counts[nm] = counts.get(nm, 0) + 1
        if k == 0 and nm == "execve":
            continue            # strace's own exec of snoopyctl: nothing has run yet, and it cannot be injected
        points.append((k, nm, counts[nm]))
    if tr == "quick" and len(points) > 70:
        # long files: keep every point around file I/O, sample the long run of identical writes
        keep = [p for p in points if p[1] not in ("write",)] + [p for p in points if p[1] == "write"][:12] + [p for p in points if p[1] == "write"][-6:]
        points = sorted(set(keep))
    for k, nm, ordn in points:
        for attempt in (0, 1):
            R.reset(content)
            rc2, l2 = R.run(action, "%s:signal=KILL:when=%d" % (nm, ordn))
            st["kill_runs"] += 1
            fired = any("killed by SIGKILL" in x for x in l2[-3:])
            s2 = syscalls(l2)
            if fired and len(s2) == k + 1 and s2[-1] == nm:
                st["kill_fired"] += 1
                verdict("kill-before", "syscall #%d %s(#%d)" % (k + 1, nm, ordn), R.get(), rc2)
                break
            if attempt == 1:
                st["inconclusive"] += 1
    # failing write-type calls
    for k, nm, ordn in [p for p in points if p[1] in WRITE_TYPE]:
        for e in ERRS:
            R.reset(content)
            rc2, l2 = R.run(action, "%s:error=%s:when=%d" % (nm, e, ordn))
            st["err_runs"] += 1
            if any("(INJECTED)" in x for x in l2):
                st["err_fired"] += 1
                after = R.get()
                verdict("%s-on-%s" % (e, nm), "syscall #%d %s(#%d)" % (k + 1, nm, ordn), after, rc2)
                if rc2 == 0 and nm in ("write", "close", "fsync") and after != new:
                    st["exit0_after_failed_write"] += 1
            else:
                st["inconclusive"] += 1
            if e == ERRS[0] and nm not in ("write", "close", "openat"):
                # the same fault when the command was started without stdout or without stderr (whatever it prints about the
                # failure must not end up in a file that got that descriptor number); positions of write/close/openat differ in
                # that start state and are left out
                for closed in ((1,), (2,)):
                    R.reset(content)
                    rc3, l3 = R.run(action, "%s:error=%s:when=%d" % (nm, e, ordn), closed=closed)
                    st["err_runs"] += 1
                    if any("(INJECTED)" in x for x in l3):
                        st["err_fired"] += 1
                        st["faults_without_stdio"] = st.get("faults_without_stdio", 0) + 1
                        verdict("%s-on-%s-fd%d-closed" % (e, nm, closed[0]), "%s(#%d), command started with descriptor %d closed" % (nm, ordn, closed[0]), R.get(), rc3)
                    else:
                        st["inconclusive"] += 1
    # a rename that fails in ways that invite a fallback (file is a mount point: EBUSY; cross-device: EXDEV; immutable: EPERM),
    # then - second fault - the process is killed before each of the system calls that follow
    for nm_r in ("rename", "renameat", "renameat2"):
        if not any(p[1] == nm_r for p in points):
            continue
        for e in ("EBUSY", "EXDEV", "EPERM"):
            R.reset(content)
            spec1 = "%s:error=%s:when=1" % (nm_r, e)
            rc2, l2 = R.run(action, spec1)
            st["err_runs"] += 1
            if not any("(INJECTED)" in x for x in l2):
                st["inconclusive"] += 1
                continue
            st["err_fired"] += 1
            verdict("%s-on-%s" % (e, nm_r), "first %s" % nm_r, R.get(), rc2)
            s2 = syscalls(l2)
            ridx = max(i for i, x in enumerate(s2) if x == nm_r)
            cnt = {}
            for i, x in enumerate(s2):
                cnt[x] = cnt.get(x, 0) + 1
                if i <= ridx or x in ("exit_group", "exit"):
                    continue
                R.reset(content)
                cmd_inj = [spec1, "%s:signal=KILL:when=%d" % (x, cnt[x])]
                rc3, l3 = R.run(action, cmd_inj)
                st["kill_runs"] += 1
                s3 = syscalls(l3)
                if any("killed by SIGKILL" in y for y in l3[-3:]) and any("(INJECTED)" in y for y in l3) and len(s3) == i + 1:
                    st["kill_fired"] += 1
                    st["second_fault_after_failed_rename"] = st.get("second_fault_after_failed_rename", 0) + 1
                    verdict("kill-after-%s-on-%s" % (e, nm_r), "syscall #%d %s after the failed %s" % (i + 1, x, nm_r), R.get(), rc3)
                else:
                    st["inconclusive"] += 1
    # short writes and death at a write: file size limits below the length of the new content
    newlen = len(new or b"")
    for lim in sorted({0, 1, newlen // 2, max(newlen - 1, 0)}):
        if lim >= newlen:
            continue
        for ign in (True, False):
            R.reset(content)
            rc2 = R.run_limited(action, lim, ign)
            st["fsize_runs"] += 1
            if rc2 != 0:
                st["fsize_failed_run"] += 1
            verdict("fsize-limit-%s" % ("short-write" if ign else "sigxfsz"), "RLIMIT_FSIZE=%d" % lim, R.get(), rc2)
    # history: a run killed right before its rename leaves its temporary file behind; the file then changes (gets shorter)
    # and the command runs again undisturbed - the result must be what a run without that history produces
    ren = [p for p in points if p[1] in ("rename", "renameat", "renameat2")]
    P = bld.lib.encode()
    shorter = b"/usr/lib/libz.so\n" if action == "enable" else P + b"\n"
    if ren and len(shorter) < len(content or b"") :
        k, nm, ordn = ren[0]
        R.reset(shorter)
        rc0, _ = R.run(action)
        expect = R.get()
        R.reset(content)
        rc2, l2 = R.run(action, "%s:signal=KILL:when=%d" % (nm, ordn))
        left = [f for f in os.listdir(work) if f not in ("trace", "ld.so.preload")]
        if left and rc0 == 0:
            with open(R.file, "wb") as f:
                f.write(shorter)
            rc3, _ = R.run(action)
            got = R.get()
            st["history_runs"] += 1
            if got != expect:
                F.violation("C20:%s:after-killed-run:left-over-temporary-file-leaks-into-result" % action,
                            "%s of %r killed before %s left %s; after the file changed to %r the next %s gave %r (exit %d), a run without that history gives %r" % (
                                action, name, nm, left, short(shorter, 60), action, short(got or b"", 160), rc3, short(expect or b"", 160)),
                            dict(action=action, initial=name, left_over=left, got=(got or b"")[:400].decode("latin-1"),
                                 expect=(expect or b"")[:400].decode("latin-1")))
        else:
            st["inconclusive"] += 1
    return F, st, dict(action=action, initial=name, baseline_syscalls=len(seq), points=len(points))


def main():
    t0 = time.time()
    tr = tier()
    bld = vbuild.build("plain")
    P = bld.lib.encode()
    root = mkwork("c20")
    scen = [(bld, a, n, c, root, i, tr) for i, (a, n, c) in enumerate(initial_contents(P, tr))]
    results = pmap(do_scenario, scen, 16)
    rmwork(root)
    F = Findings(PROP)
    tot = {}
    infos = []
    for f, st, info in results:
        for k, v in f.viol.items():
            if k in F.viol:
                F.viol[k]["count"] += v["count"]
            else:
                F.viol[k] = v
        for k, v in st.items():
            tot[k] = tot.get(k, 0) + v
        infos.append(info)
    runs = tot["kill_runs"] + tot["err_runs"]
    if (tot["kill_fired"] == 0 or tot["err_fired"] == 0) and F.n_unlisted() == 0:
        raise Harness("no injected fault fired: %s" % tot)
    if (tot["fsize_failed_run"] == 0 or tot["history_runs"] == 0) and F.n_unlisted() == 0:
        raise Harness("file-size-limit / history arms observed nothing: %s" % tot)
    if (tot["inconclusive"] > max(3, runs // 50)) and F.n_unlisted() == 0:
        raise Harness("too many inconclusive injections: %s" % tot)
    rc = F.report()
    write_evidence(PROP, "fault_enumeration", tr, dict(
        evaluations=tot["kill_fired"] + tot["err_fired"],
        distinct_nontrivial=tot["kill_fired"] + tot["err_fired"],
        rule="one run per (command, initial content, syscall position k) killed before syscall k, plus one per (write-type syscall, errno in ENOSPC/EIO/EDQUOT); counted only when the strace log proves the injection fired at that call; all are distinct by construction",
        exhaustive=(tr == "thorough"),
        samples=infos[:4] + [dict(example_injection="write:signal=KILL:when=2"), dict(example_injection="close:error=EIO:when=3")],
        monitor_events=tot, scenarios=infos, build=dict(variant="plain", treehash=bld.treehash), violation_keys=sorted(F.viol)),
        time.time() - t0, F.n_unlisted(),
        ["strace kills the tracee before the targeted syscall executes (measured, DESIGN section 1)",
         "a process killed between two syscalls is indistinguishable on disk from one killed right before the second",
         "short writes are produced with RLIMIT_FSIZE (limits 0, 1, half and length-1 of the new content), not by faking return values"])
    log("[C20] %s %.1fs" % (tot, time.time() - t0))
    return rc
