/* vprobe - walks the three compiled registries and prints index, name and implementation address (C13). */
#include <stdio.h>
#include <string.h>
extern char *snoopy_datasourceregistry_names[];
extern int (*snoopy_datasourceregistry_ptrs[])(char *, size_t, const char *);
extern char *snoopy_filterregistry_names[];
extern int (*snoopy_filterregistry_ptrs[])(const char *);
extern char *snoopy_outputregistry_names[];
extern int (*snoopy_outputregistry_ptrs[])(const char *, const char *);
int snoopy_datasourceregistry_getCount(void);
int snoopy_filterregistry_getCount(void);
int snoopy_outputregistry_getCount(void);
int main(void) {
    for (int i = 0; strcmp(snoopy_datasourceregistry_names[i], "") != 0; i++)
        printf("datasource %d %s %p\n", i, snoopy_datasourceregistry_names[i], (void *) snoopy_datasourceregistry_ptrs[i]);
    for (int i = 0; strcmp(snoopy_filterregistry_names[i], "") != 0; i++)
        printf("filter %d %s %p\n", i, snoopy_filterregistry_names[i], (void *) snoopy_filterregistry_ptrs[i]);
    for (int i = 0; strcmp(snoopy_outputregistry_names[i], "") != 0; i++)
        printf("output %d %s %p\n", i, snoopy_outputregistry_names[i], (void *) snoopy_outputregistry_ptrs[i]);
    printf("counts %d %d %d\n", snoopy_datasourceregistry_getCount(), snoopy_filterregistry_getCount(), snoopy_outputregistry_getCount());
    return 0;
}
