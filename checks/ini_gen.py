"""Generators for snoopy.ini contents: grammar-based with boundary values per option (C02, C08, C11, C16) and byte mutations."""

FACILITIES = ["AUTH", "AUTHPRIV", "CRON", "DAEMON", "FTP", "KERN", "LOCAL0", "LOCAL1", "LOCAL2", "LOCAL3", "LOCAL4", "LOCAL5",
              "LOCAL6", "LOCAL7", "LPR", "MAIL", "NEWS", "SYSLOG", "USER", "UUCP"]
LEVELS = ["EMERG", "ALERT", "CRIT", "ERR", "WARNING", "NOTICE", "INFO", "DEBUG"]
OPTIONS = ["error_logging", "filter_chain", "message_format", "output", "syslog_facility", "syslog_ident", "syslog_level",
           "datasource_message_max_length", "log_message_max_length"]
ALL_DS = ["cgroup:name=systemd", "cgroup:1", "cgroup:", "cmdline", "cwd", "datetime", "datetime:%s", "datetime:%Y-%m-%dT%H:%M:%S%z", "domain", "egid",
          "egroup", "env:HOME", "env:", "env_all", "euid", "eusername", "filename", "gid", "group", "hostname", "ipaddr", "login", "pid", "ppid",
          "rpname", "sid", "snoopy_configure_command", "snoopy_literal:x", "snoopy_threads", "snoopy_version", "systemd_unit_name", "tid",
          "tid_kernel", "timestamp", "timestamp_ms", "timestamp_us", "tty", "tty_uid", "tty_username", "uid", "username", "failure", "noop"]


def v_format(rng):
    k = rng.random()
    if k < 0.25:
        n = rng.choice([0, 1, 98, 99, 100, 101, 150, 900])
        return b"%{" + rng.choice([b"snoopy_literal:", b"env:", b"", b"x", b"cmdline:"]) + b"t" * n + b"}" + rng.choice([b"", b"tail"])
    if k < 0.45:
        return b" ".join(b"%{" + rng.choice(ALL_DS).encode() + b"}" for _ in range(rng.randrange(1, 12)))
    if k < 0.55:
        return b"".join(b"%{" + d.encode() + b"}," for d in ALL_DS)[:980]
    if k < 0.65:
        return rng.choice([b"%{", b"%{cmdline", b"}", b"%", b"%{}", b"%{:}", b"%{:", b"%{%{%{", b"%{env:%{env:%{env:X}}}", b""])
    if k < 0.8:
        return b"%{env:BIG}" + rng.choice([b"", b"%{cmdline}", b"x" * rng.randrange(0, 300)])
    return bytes(rng.choice(b"ab%{}: \t.") for _ in range(rng.randrange(0, 200)))


def v_output(rng, work):
    w = work.encode()
    return rng.choice([
        b":", b":file", b"file:", b"x:", b"file", b"socket", b"socket:", b"devlog:ignored", b"", b"::", b"file::", b":" * 50,
        b"socket:" + w + b"/" + b"s" * rng.choice([90, 107, 108, 109, 200]),
        b"socket:" + w + b"/sock", b"file:" + w + b"/log", b"file:" + w + b"/%{env:BIG}", b"file:" + w + b"/" + b"%{snoopy_literal:" + b"p" * 200 + b"}" * 1,
        b"file:" + w + b"/a/%{datetime:%Y}/%{nosuch}", b"file:/dev/full", b"file:/nonexistent/dir/x", b"file:" + w, b"file:/", b"devtty", b"devnull",
        b"stdout", b"stderr", b"noop", b"syslog", b"devlog", b"DEVLOG", b"file:" + w + b"/" + b"%{env:P4K}",
    ])


def v_syslog_name(rng, names):
    k = rng.random()
    if k < 0.35:
        n = rng.choice(names)
        return rng.choice([n, "LOG_" + n, n.lower(), "log_" + n.lower(), "Log_" + n.title(), n + "X", n[:-1], "LOG_" + n[:3]]).encode()
    return rng.choice([b"", b"A", b"AB", b"ABC", b"ABCD", b"LOG", b"LOG_", b"LOG_A", b"___", b"_", b"XXX_AUTH", b"XXX_", b"123", b"L" * 500,
                       b"LOG_LOG_AUTH", b" AUTH", b"AUTH ", b"\xff\xfe", b"auth\x01"])


def v_length(rng):
    k = rng.random()
    if k < 0.3:
        return str(rng.choice([0, 1, 254, 255, 256, 2047, 4096, 65535, 1048575, 1048576, 2147483647, 2147483648, 4294967295, 4294967296])).encode()
    if k < 0.55:
        return (str(rng.choice([0, 1, 2, 1023, 1024, 1025, 2047, 2048, 2049, 4095, 4096, 2097151, 2097152, 4194304, 8796093022208])) + rng.choice("kKmM")).encode()
    if k < 0.7:
        return (rng.choice("123456789") + "".join(rng.choice("0123456789") for _ in range(rng.randrange(17, 26)))).encode() + rng.choice([b"", b"k", b"m"])
    return rng.choice([b"", b"k", b"m", b"-1", b"-5k", b"+5", b"12x", b"1 k", b"0x10", b"1e6", b"1.5m", b"\xd9\xa1", b"9" * 400, b"00000000000000000000001k", b" 300", b"300 "])


def v_chain(rng):
    k = rng.random()
    specs = ["only_root", "only_uid:0", "exclude_uid:1,2,3", "only_tty", "exclude_spawns_of:bash,sshd", "noop", "nosuch", "only_uid:", "exclude_spawns_of:",
             "exclude_spawns_of:,,,", "only_uid:,", "only_uid:abc", "only_uid:-1", "only_uid:99999999999999999999", ":", ";", "only_uid:" + ",".join(["1"] * 300)]
    if k < 0.6:
        return ";".join(rng.choice(specs) for _ in range(rng.randrange(0, 8))).encode()[:990]
    if k < 0.8:
        return (rng.choice(["only_uid", "x", "exclude_spawns_of", ""]) * rng.choice([1, 50, 200]) + rng.choice([":", ""]) + "a" * rng.choice([0, 10, 900]))[:990].encode()
    return bytes(rng.choice(b";:,ab ") for _ in range(rng.randrange(0, 300)))


def v_bool(rng):
    return rng.choice([b"yes", b"no", b"y", b"n", b"1", b"0", b"true", b"False", b"TRUE", b"", b"maybe", b"2", b"-", b"Y" * 300])


def option_value(rng, opt, work):
    if opt == "message_format" or opt == "syslog_ident":
        return v_format(rng)
    if opt == "output":
        return v_output(rng, work)
    if opt == "syslog_facility":
        return v_syslog_name(rng, FACILITIES)
    if opt == "syslog_level":
        return v_syslog_name(rng, LEVELS)
    if opt.endswith("max_length"):
        return v_length(rng)
    if opt == "filter_chain":
        return v_chain(rng)
    if opt == "error_logging":
        return v_bool(rng)
    return b"x"


def render_line(rng, key, val):
    sep = rng.choice([b" = ", b"=", b" =", b"= ", b":", b" : ", b"\t=\t"])
    q = rng.random()
    if q < 0.25:
        val = b'"' + val + b'"'
    elif q < 0.32:
        val = b"'" + val + b"'"
    elif q < 0.36:
        val = b'"' + val
    line = rng.choice([b"", b"", b"", b" ", b"\t"]) + key + sep + val
    if rng.random() < 0.15:
        line += rng.choice([b" ; inline comment", b" ;", b"\t; x", b" # not a comment"])
    return line


def gen_ini(rng, work):
    """grammar-based file; returns bytes."""
    lines = []
    if rng.random() < 0.1:
        lines.append(b"\xef\xbb\xbf" + rng.choice([b"", b"[snoopy]"]))
    if rng.random() < 0.9:
        lines.append(rng.choice([b"[snoopy]", b"[snoopy]", b"[snoopy]", b" [snoopy]", b"[snoopy] ; c", b"[ snoopy ]", b"[snoopy", b"[SNOOPY]", b"[snoopy]]", b"[snoopy][x]"]))
    for _ in range(rng.randrange(0, 12)):
        k = rng.random()
        if k < 0.70:
            opt = rng.choice(OPTIONS)
            key = opt.encode()
            if rng.random() < 0.06:
                key = rng.choice([key.upper(), key + b" ", b" " + key, key[:-1], key + b"x", b"", b"=" + key])
            lines.append(render_line(rng, key, option_value(rng, opt, work)))
        elif k < 0.78:
            lines.append(rng.choice([b"; comment", b"# comment", b"", b"   ", b"\t", b";", b"#[snoopy]"]))
        elif k < 0.84:
            lines.append(rng.choice([b"[other]", b"[snoopy]", b"[]", b"[", b"]", b"[snoopy.sub]"]))
        elif k < 0.90:
            # continuation line (leading whitespace after a name=value line)
            lines.append(rng.choice([b"  continued value", b"\tmore", b"   = x", b"  %{cmdline}", b" 300k"]))
        elif k < 0.95:
            lines.append(rng.choice([b"no separator here", b"=novalue", b"===", b"\x01\x02\x03", b"\xff" * 10, b"key", b"key;=v"]))
        else:
            n = rng.choice([1021, 1022, 1023, 1024, 1025, 2047, 5000])
            opt = rng.choice(["message_format", "filter_chain", "output", "syslog_ident"])
            pre = opt.encode() + b" = "
            fill = rng.choice([b"a", b"%{cmdline}", b"%{", b";", b"x=", b" "])
            lines.append((pre + fill * (n // len(fill) + 1))[:n])
    nl = rng.choice([b"\n", b"\n", b"\n", b"\r\n"])
    body = nl.join(lines)
    if rng.random() < 0.8:
        body += nl
    return body


def mutate(rng, data):
    """byte-level mutation of a generated file."""
    b = bytearray(data)
    for _ in range(rng.randrange(1, 6)):
        if not b:
            b = bytearray(b"[snoopy]\n")
        k = rng.random()
        pos = rng.randrange(0, len(b))
        if k < 0.25:
            b[pos] = rng.randrange(1, 256)
        elif k < 0.45:
            del b[pos:pos + rng.randrange(1, 20)]
        elif k < 0.65:
            b[pos:pos] = bytes(rng.randrange(1, 256) for _ in range(rng.randrange(1, 10)))
        elif k < 0.8:
            j = rng.randrange(0, len(b))
            b[pos:pos] = b[j:j + rng.randrange(1, 200)]
        elif k < 0.9:
            b[pos:pos] = rng.choice([b"%{", b"}", b":", b";", b"\n", b"\"", b"=", b"[", b"\n ", b"\x00"])
        else:
            b[pos:pos] = b[pos:pos + 1] * rng.choice([100, 1024, 4096])
    return bytes(b)
