"""C12 - identity and environment data sources report the process's true state.

The driver constructs process states as root (pairwise distinct real/effective/saved uids and gids with and without
passwd/group entries, new sessions, deep / renamed / deleted / over-long working directories, stdin on an own pty, a pty
owned by another uid, a pipe, a file or closed, hostnames in a UTS namespace, arbitrary environments, ancestor chains,
utmp entries with IP addresses) and, inside the same child just before the wrapped call, records an independent ORACLE
event from raw syscalls and its own /proc parsing.  The record (all data sources, separated by 0x1e) is compared field
by field with values computed offline from that event, the harness's own passwd/group/hosts/utmp files and a time
bracket.
"""
import os
import re
import struct
import time

from vlib import build as vbuild
from vlib.batch import events_of, run_cases
from vlib.common import Findings, Harness, HBIN, log, rng_for, short, tier, unhx, write_evidence
from vlib.drive import Script, ensure_harness, sink_bytes

PROP = "C12"
os.environ["TZ"] = "UTC"
time.tzset()
SEP = b"\x1e"
UIDS = [0, 1, 12345, 65534, 65536, 2**31, 2**32 - 2, 777]
PASSWD = {0: "root", 1: "daemon", 65534: "nobody", 12345: "tuser", 2**31: "big2g", 777: "a-rather-long-login-name-of-32ch"}
GROUPS = {0: "root", 1: "daemon", 65534: "nogroup", 12345: "tgroup", 2**32 - 2: "almostmax"}
G1 = ["uid", "euid", "gid", "egid", "username", "eusername", "group", "egroup", "tty", "tty_uid", "tty_username", "login", "ipaddr"]
G2 = ["pid", "ppid", "sid", "tid", "tid_kernel", "cwd", "hostname", "rpname", "snoopy_threads", "snoopy_version", "snoopy_literal:l i t", "domain", "filename"]
ERRMSG = "[ERROR: Data source '%s' failed with the following error message: '%s']"

STRF = ["%Y-%m-%d", "%H:%M:%S", "%s", "%FT%T%z", "%a %b %e", "%j", "%U-%W", "%y%m%d%H%M%S", "%Z", "%%", "%C", "%D", "%G-%V", "%I %p", "%c", "%x %X",
        "literal only", "%Ey", "%Od", "%k%l", "%R", "%u%w", "%h", "%A, %B %d, %Y", "%+"]


def files(work):
    passwd = "".join("%s:x:%d:%d:test:/:/bin/sh\n" % (n, u, u if u < 2**32 - 1 else 0) for u, n in PASSWD.items())
    group = "".join("%s:x:%d:\n" % (n, g) for g, n in GROUPS.items())
    hosts = "127.0.0.1 localhost\n10.1.2.3 testhost.example.org testhost\n10.1.2.4 UPPER.Case.Dom upper # comment\n# 10.9.9.9 commented.example.net commented\n10.1.2.5 nodot\n"
    utmp = b""
    for n in range(0, 64):
        rec = struct.pack("hi32s4s32s256shhiii4I20s", 7, 1000 + n, b"pts/%d" % n, b"%d" % (n % 10), b"user", b"host%d" % n, 0, 0, 0, 0, 0,
                          struct.unpack("=I", bytes([10, 20, n, 7]))[0] if n % 3 else 0, 0, 0, 0, b"")
        if n % 5 == 4:      # an IPv6 entry
            rec = struct.pack("hi32s4s32s256shhiii4I20s", 7, 1000 + n, b"pts/%d" % n, b"6", b"user", b"h6", 0, 0, 0, 0, 0,
                              *struct.unpack("=4I", bytes([0x20, 0x01, 0x0d, 0xb8] + [0] * 10 + [n, 1])), b"")
        utmp += rec
    return passwd, group, hosts, utmp


def utmp_ip(n):
    if n % 5 == 4:
        import socket
        return socket.inet_ntop(socket.AF_INET6, bytes([0x20, 0x01, 0x0d, 0xb8] + [0] * 10 + [n, 1]))
    if n % 3 == 0:
        return "-"
    return "10.20.%d.7" % n


def make_states(tr):
    rng = rng_for(PROP, tr)
    n = 2000 if tr == "quick" else 30000
    out = []
    for i in range(n):
        ids = rng.sample(UIDS, 3)
        gids = rng.sample([0, 1, 12345, 65534, 65536, 2**31, 2**32 - 2], 3)
        if rng.random() < 0.15:
            ids = [0, 0, 0]
        env = rng.choice(["small", "small", "empty", "many", "odd", "huge", "null", "sudo", "logname"])
        out.append(dict(id=i + 1, uids=ids, gids=gids, session=rng.random() < 0.4,
                        cwd=rng.choice(["root", "work", "deep", "renamed", "deleted", "toolong", "work"]),
                        stdin=rng.choice(["pty", "pty", "pty-other-uid", "pipe", "file", "closed"]),
                        env=env, host=rng.choice([None, None, "testhost", "upper", "nodot", "h" * 64, "x"]),
                        chain=rng.randrange(0, 8), strf=rng.sample(STRF, 2), sub=rng.randrange(1 << 30)))
    for st in out:
        # a third of the states live in a process tree of their own: its top process has lost its parent (re-parented to
        # pid 1) and carries a name chosen here - that is the "root process" the rpname source documents
        st["orphan"] = rng.random() < 0.33
        st["rootname"] = rng.choice([b"rootproc", b"  two-lead", b"\ttabbed", b" x", b"in ner", b"trail  ", b"(paren)", b"a) R 1 (b", b"fifteen-bytes-xx",
                                     b"Name:", b"PPid:\t1", b"1", b"-", b"r\xc3\xa9sum\xc3\xa9"])
        st["errno"] = rng.choice([0, 0, 34, 22, 2, 4])
    return out


def env_for(st):
    import random
    rng = random.Random(st["sub"])
    k = st["env"]
    t1 = b"value one " + bytes(rng.randrange(33, 127) for _ in range(rng.randrange(0, 30)))
    if k == "small":
        return [b"T1=" + t1, b"T2=", b"HOME=/root", b"PATH=/bin", b"TZ=UTC"]
    if k == "empty":
        return []
    if k == "many":
        return [b"T1=" + t1] + [b"V%d=%d" % (j, j) for j in range(3000)] + [b"T2=last"]
    if k == "odd":
        return [b"=startsWithEq", b"NOEQUALS", b"T1=" + t1, b"T1X=shadow", b"XT1=shadow", b"T2==double", b"T1=second-definition", b"A=\xff\xfe"]
    if k == "huge":
        return [b"T1=" + b"H" * 100000, b"T2=x"]
    if k == "sudo":
        return [b"SUDO_USER=sudoer", b"LOGNAME=lg", b"T1=" + t1]
    if k == "logname":
        return [b"LOGNAME=" + b"l" * rng.choice([1, 10, 253, 254, 255, 300]), b"T2=" + t1]
    return None


def script_fn(st, B, s):
    w = B.work
    if not getattr(B, "prepared", False):
        B.prepared = True
        passwd, group, hosts, utmp = files(w)
        for name, data in (("passwd", passwd), ("group", group), ("hosts", hosts)):
            with open(os.path.join(w, name), "w") as f:
                f.write(data)
        with open(os.path.join(w, "stdinfile"), "w") as f:
            f.write("x")
        os.chmod(os.path.join(w, "stdinfile"), 0o644)
        s.raw("bind %s %s" % (os.path.join(w, "passwd").encode().hex(), b"/etc/passwd".hex()))
        s.raw("bind %s %s" % (os.path.join(w, "group").encode().hex(), b"/etc/group".hex()))
        s.raw("bind %s %s" % (os.path.join(w, "hosts").encode().hex(), b"/etc/hosts".hex()))
        s.raw("tmpfs " + b"/run".hex())
        s.raw("writefile %s %s" % (b"/run/utmp".hex(), utmp.hex()))
        os.makedirs(os.path.join(w, "cw"), exist_ok=True)
        os.chmod(os.path.join(w, "cw"), 0o777)
    base = st["id"] * 10
    cg = ["cgroup:0", "cgroup:1", "cgroup:4", "cgroup:name=systemd", "cgroup:cpu", "cgroup:nosuch", "cgroup:77"]
    G3 = ["env:T1", "env:T2", "env:UNSETVAR", "env_all", "timestamp", "timestamp_ms", "timestamp_us", "datetime", "datetime:" + st["strf"][0], "datetime:" + st["strf"][1]] + cg
    st["_groups"] = [G1, G2, G3]
    s.fork(st["id"])
    s.raw("nosinks")
    if st["host"]:
        s.raw("uts " + st["host"].encode().hex())
    # stdin
    k = st["stdin"]
    if k in ("pty", "pty-other-uid"):
        s.raw("stdin pty")
        if k == "pty-other-uid":
            s.raw("chownstdin 12345")
    elif k == "pipe":
        s.raw("stdin pipe")
    elif k == "closed":
        s.raw("stdin closed")
    else:
        s.raw("stdinfile " + os.path.join(w, "stdinfile").encode().hex())
    if st["session"]:
        s.raw("setsid")
    # cwd
    c = st["cwd"]
    cw = os.path.join(w, "cw")
    if c == "root":
        s.raw("chdir " + b"/".hex())
    elif c == "work":
        s.raw("chdir " + cw.encode().hex())
    elif c == "deep":
        s.raw("mkdirp %s %s %d" % (cw.encode().hex(), (b"d%d" % st["id"]).hex(), 1))
        s.raw("mkdirp %s %s %d" % (b".".hex(), (b"deepdirectoryname-20").hex(), 180))
    elif c == "toolong":
        s.raw("mkdirp %s %s %d" % (cw.encode().hex(), (b"l%d" % st["id"]).hex(), 1))
        s.raw("mkdirp %s %s %d" % (b".".hex(), (b"L" * 200).hex(), 25))
    elif c == "renamed":
        d = os.path.join(cw, "r%d-before" % st["id"])
        s.raw("mkdirp %s %s 1" % (cw.encode().hex(), ("r%d-before" % st["id"]).encode().hex()))
        s.raw("rename %s %s" % (d.encode().hex(), os.path.join(cw, "r%d-after" % st["id"]).encode().hex()))
    elif c == "deleted":
        d = os.path.join(cw, "del%d" % st["id"])
        s.raw("mkdirp %s %s 1" % (cw.encode().hex(), ("del%d" % st["id"]).encode().hex()))
        s.raw("rmdir " + d.encode().hex())
    # a priming call BEFORE the forks / the uid change below: anything the library caches from this call (pid, tid, uid ...)
    # must not show up in what the descendant logs afterwards
    if st["sub"] % 2 == 0:
        fmt0 = SEP.join(b"%{" + x.encode() + b"}" for x in G1 + G2)
        s.conf(b"[snoopy]\nmessage_format = \"" + fmt0 + b"\"\noutput = devnull\n")
        s.call(base + 9, "execve", b"/bin/c12-prime", [b"prime"], [b"E=1"], -1, 2)
        st["_primed"] = True
    # ancestors
    nchain = st["chain"] if st["chain"] else (1 if st["sub"] % 2 == 0 else 0)
    if st["orphan"]:
        s.raw("orphan")
        names = [st["rootname"]] + [b"anc%d-%d" % (st["id"], j) for j in range(nchain)]
        if nchain:
            names.append(b"leafproc")
        s.raw("chain " + ",".join(x.hex() for x in names))
    elif nchain:
        s.raw("chain " + ",".join((b"anc%d-%d" % (st["id"], j)).hex() for j in range(nchain)) + "," + b"leafproc".hex())
    s.raw("preerrno %d" % st["errno"])
    # environment
    env = env_for(st)
    if env is None:
        s.raw("envnull")
    else:
        s.raw("envset " + Script.vec(env))
    # ids last (gids before uids)
    g = st["gids"]
    u = st["uids"]
    s.raw("gid %d %d %d" % (g[0], g[1], g[2]))
    s.raw("uid %d %d %d" % (u[0], u[1], u[2]))
    for gi, grp in enumerate(st["_groups"]):
        fmt = SEP.join(b"%{" + x.encode() + b"}" for x in grp)
        conf = b"[snoopy]\ndatasource_message_max_length = 1048575\nlog_message_max_length = 1048575\nmessage_format = \"" + fmt + b"\"\noutput = file:" + B.logf.encode() + b"\n"
        s.conf(conf)
        s.raw("oracle %d" % (base + gi))
        s.call(base + gi, "execve", b"/bin/c12-%d" % st["id"], [b"c12"], [b"E=1"], -1, 2)
    s.endfork()


def username(uid):
    return PASSWD.get(uid, "user-%d" % uid)


def usernames(uid):
    """acceptable texts: the passwd name, or - without an entry - a placeholder (its wording is not documented: the
    numeric form must carry the true unsigned uid, the '(undefined)' form used by other sources is accepted too)."""
    if uid in PASSWD:
        return {PASSWD[uid].encode()}
    return {b"user-%d" % uid, b"(undefined)"}


def groupname(gid):
    return GROUPS.get(gid, "(undefined)")


def domain_of(host):
    hosts = files("/x")[2]
    needle = (host + ".").lower()
    for line in hosts.splitlines():
        line = line.split("#", 1)[0]
        i = line.lower().find(needle)
        if i >= 0:
            rest = line[i:]
            tok = re.split(r"[ \t\n\r]", rest, 1)[0]
            return tok[len(needle):]
    return "(none)"


def cgroup_lookup(content, arg):
    lines = [l for l in content.split("\n") if l]
    if arg.isdigit():
        for l in lines:
            if l.startswith(arg + ":"):
                return l
        return "(none)"
    for l in lines:
        p = l.split(":", 2)
        if len(p) == 3 and p[1] != "" and (p[1] == arg or arg in p[1].split(",")):
            return l
    return "(none)"


def expected(name, O, st, bracket, version):
    """-> set of acceptable strings (bytes) or None if not judged"""
    env = None if O["environ_null"] else [unhx(x) for x in O["environ"]]
    getenv = {}
    for e in (env or []):
        if b"=" in e:
            k, v = e.split(b"=", 1)
            getenv.setdefault(k, v)
    tty_err = None
    if not O["stdin_tty"]:
        tty_err = b"ERROR(ttyname_r->EBADF)" if not O["stdin_open"] else b"(none)"
    base, _, arg = name.partition(":")
    if base == "uid":
        return {b"%d" % O["ruid"]}
    if base == "euid":
        return {b"%d" % O["euid"]}
    if base == "gid":
        return {b"%d" % O["rgid"]}
    if base == "egid":
        return {b"%d" % O["egid"]}
    if base == "username":
        return usernames(O["ruid"])
    if base == "eusername":
        return usernames(O["euid"])
    if base == "group":
        return {groupname(O["rgid"]).encode()}
    if base == "egroup":
        return {groupname(O["egid"]).encode()}
    if base == "tty":
        return {tty_err} if tty_err else {unhx(O["stdin_link"])}
    if base == "tty_uid":
        return {tty_err} if tty_err else {b"%d" % O["stdin_path_uid"]}
    if base == "tty_username":
        return {tty_err} if tty_err else usernames(O["stdin_path_uid"])
    if base == "login":
        if O["getlogin_rc"] == 0:
            return {unhx(O["getlogin"])}
        v = getenv.get(b"SUDO_USER") or getenv.get(b"LOGNAME")
        if b"SUDO_USER" in getenv:
            v = getenv[b"SUDO_USER"]
        elif b"LOGNAME" in getenv:
            v = getenv[b"LOGNAME"]
        else:
            return {b"(unknown)"}
        return {v[:254]}
    if base == "ipaddr":
        if tty_err:
            return {b"-"}
        m = re.match(rb"^/dev/pts/(\d+)$", unhx(O["stdin_link"]))
        if m and int(m.group(1)) < 64:
            return {utmp_ip(int(m.group(1))).encode()}
        return {b"-"}
    if base == "pid":
        return {b"%d" % O["pid"]}
    if base == "ppid":
        return {b"%d" % O["ppid"]}
    if base == "sid":
        return {b"%d" % O["sid"]}
    if base == "tid":
        return {b"%d" % O["pthread"]}
    if base == "tid_kernel":
        return {b"%d" % O["ktid"]}
    if base == "cwd":
        if "cwd" in O and not unhx(O["cwd"]).startswith(b"("):
            c = unhx(O["cwd"])
            if len(c) > 4096:
                return {c, (ERRMSG % ("cwd", "")).encode()}
            return {c}
        return {(ERRMSG % ("cwd", "")).encode()}
    if base == "hostname":
        return {unhx(O["nodename"])}
    if base == "rpname":
        return {unhx(O["rpname"])} if "rpname" in O else {b"(unknown)"}
    if base == "snoopy_threads":
        return {b"1"}
    if base == "snoopy_version":
        return {version.encode()}
    if base == "snoopy_literal":
        return {arg.encode()}
    if base == "domain":
        h = unhx(O["nodename"]).decode("latin-1")
        if len(h) > 63:
            return None
        return {domain_of(h).encode()}
    if base == "filename":
        return {b"/bin/c12-%d" % st["id"]}
    if base == "env":
        return {getenv.get(arg.encode(), b"(undefined)")}
    if base == "env_all":
        if env is None or len(env) == 0:
            return {b""}
        if any(x == "TRUNCATED" for x in O["environ"]):
            return None
        return {b",".join(env)}
    if base == "cgroup":
        return {cgroup_lookup(unhx(O["cgroup"]).decode("latin-1"), arg).encode("latin-1")}
    lo, hi = bracket
    if base == "timestamp":
        return {b"%d" % t for t in range(int(lo), int(hi) + 1)}
    if base in ("timestamp_ms", "timestamp_us"):
        return "time-fraction"
    if base == "datetime":
        fmt = arg or "%FT%T%z"
        tz = getenv.get(b"TZ")
        acc = set()
        for t in range(int(lo), int(hi) + 1):
            try:
                r = time.strftime(fmt, time.localtime(t))   # this process runs with TZ=UTC (set below), the children with /etc/localtime = UTC and TZ unset or UTC
            except ValueError:
                return None
            acc.add(r.encode("latin-1", "replace") if r else b"(error @ strftime())")
        return acc
    return None


def check_fn(st, evs, B):
    base = st["id"] * 10
    ch = events_of(evs, "CHILD")
    wit = {k: v for k, v in st.items() if not k.startswith("_")}
    if ch and (ch[0]["signal"] or ch[0].get("timeout") or ch[0]["status"] not in (0,)):
        if ch[0]["status"] == 3:
            raise Harness("driver could not construct state %s" % wit)
        B.F.violation("C12:caller-killed:sig%d" % ch[0]["signal"], "process died (signal %d, status %d) in state %s" % (ch[0]["signal"], ch[0]["status"], wit), wit)
        return
    B.count("states")
    groups = st.get("_groups")
    if groups is None:
        cg = ["cgroup:0", "cgroup:1", "cgroup:4", "cgroup:name=systemd", "cgroup:cpu", "cgroup:nosuch", "cgroup:77"]
        groups = [G1, G2, ["env:T1", "env:T2", "env:UNSETVAR", "env_all", "timestamp", "timestamp_ms", "timestamp_us", "datetime", "datetime:" + st["strf"][0], "datetime:" + st["strf"][1]] + cg]
    for gi, grp in enumerate(groups):
        O = next((e for e in B.res.events if e["ev"] == "ORACLE" and e["id"] == base + gi), None)
        b = next((e for e in B.res.events if e["ev"] == "BEGIN" and e.get("id") == base + gi), None)
        r = next((e for e in B.res.events if e["ev"] == "REAL" and e.get("id") == base + gi), None)
        en = next((e for e in B.res.events if e["ev"] == "END" and e.get("id") == base + gi), None)
        if not (O and b and r and en):
            raise Harness("missing events for state %d group %d" % (st["id"], gi))
        if not hasattr(B, "file_records"):
            load_records(B)             # records are read back from the log file once per batch
        rec = B.file_records.get(st["id"], {}).get(gi)
        if rec is None:
            B.F.violation("C12:no-record", "no record for state %s group %d" % (wit, gi), wit)
            continue
        vals = rec.split(SEP)
        if len(vals) != len(grp):
            B.F.violation("C12:field-count", "record has %d fields, format has %d: %s" % (len(vals), len(grp), short(rec, 200)), wit)
            continue
        # whole seconds as integers (a double cannot hold the microseconds exactly); time(2) reads the coarse clock, which may
        # still show the previous second for up to one tick after clock_gettime(CLOCK_REALTIME) rolled over: lower bound - 1
        bracket = (O["now_s"] - 1, en["now_s"])
        for name, got in zip(grp, vals):
            if name == "rpname" and st.get("orphan"):
                # the harness' own construction, checked against the oracle: the tree's top process carries the chosen name
                if "rpname" in O and bytes.fromhex(O["rpname"]) == st["rootname"][:15]:
                    B.count("rpname_own_tree:" + st["rootname"].decode("latin-1").replace("\t", "\\t"))
                else:
                    B.count("orphan_not_under_pid_1")
            exp = expected(name, O, st, bracket, B.version)
            if exp is None:
                B.count("not_judged")
                continue
            B.count("fields")
            if exp == "time-fraction":
                # the sub-second part of a clock reading made between the oracle's reading (right before the call) and the
                # driver's reading after the call returned: 3 digits = milliseconds that had begun, 6 digits = microseconds
                t0, t1 = O["now_us"], en["now_us"]
                if name == "timestamp_ms":
                    ok = got.isdigit() and len(got) == 3 and (t1 - t0 > 900000 or ((int(got) - (t0 // 1000)) % 1000) <= (t1 // 1000 - t0 // 1000))
                else:
                    ok = got.isdigit() and len(got) == 6 and (t1 - t0 > 900000 or ((int(got) - t0) % 1000000) <= (t1 - t0))
                exp = {b"<sub-second part of a reading between %d and %d us>" % (t0, t1)}
            else:
                ok = got in exp
            if not ok:
                base_name = name.split(":")[0]
                sub = ""
                if base_name in ("username", "eusername", "tty_username"):
                    uid = O["ruid"] if base_name == "username" else (O["euid"] if base_name == "eusername" else O.get("stdin_path_uid", 0))
                    sub = ":no-passwd-entry-uid>=2^31" if uid not in PASSWD and uid >= 2**31 else (":no-passwd-entry" if uid not in PASSWD else ":has-entry")
                B.F.violation("C12:%s%s" % (base_name, sub), "%%{%s} = %s, the process state says %s (state: uids=%s gids=%s stdin=%s cwd=%s env=%s host=%s chain=%d)" % (
                    name, short(got, 100), [short(x, 100) for x in sorted(exp)][:3], st["uids"], st["gids"], st["stdin"], st["cwd"], st["env"], st["host"], st["chain"]),
                    dict(wit, datasource=name, got=got.decode("latin-1")[:500], expected=[x.decode("latin-1")[:500] for x in sorted(exp)][:5]))
            else:
                B.count("ok:" + name.split(":")[0])


def load_records(B):
    """log file lines -> {state id: {group index: record}} ; lines are matched by the %{filename} token in group 1 and by order."""
    B.file_records = {}
    try:
        with open(B.logf, "rb") as f:
            data = f.read()
    except OSError:
        return
    # records may contain newlines (env values never do here); split on newline
    order = {}
    for e in B.res.events:
        if e["ev"] == "REAL":
            order.setdefault(e["id"] // 10, []).append(e["id"] % 10)
    lines = data.split(b"\n")
    if lines and lines[-1] == b"":
        lines.pop()
    # the driver ran calls sequentially: line k belongs to the k-th REAL event that logged something
    seq = [e["id"] for e in B.res.events if e["ev"] == "REAL" and e["id"] % 10 != 9]      # (id%10 == 9: priming calls, logged to devnull)
    if len(seq) != len(lines):
        B.file_records = {}
        B.count("record_count_mismatch")
        # fall back: cannot attribute
        return
    for cid, line in zip(seq, lines):
        B.file_records.setdefault(cid // 10, {})[cid % 10] = line


def _check(st, evs, B):
    B.version = _VERSION[0]
    return check_fn(st, evs, B)


_VERSION = [""]


def fault_arm(bld, F, tot):
    """Name sources while their lookups fail (descriptor table full: EMFILE; a passwd entry that does not fit the lookup buffer:
    ERANGE).  An error text is a truthful answer then; the name of a *different* identity, or the no-such-user placeholder for
    an id that has an entry, is not.  In vitro (the record itself could not be written with a full descriptor table)."""
    from vlib.common import mkwork, rmwork
    from vlib.drive import run_vdrive
    exe = vbuild.build_vitro(bld, asan=False)
    work = mkwork("c12f")
    os.chmod(work, 0o755)
    try:
        with open(os.path.join(work, "passwd"), "w") as f:
            f.write("root:x:0:0:root:/root:/bin/sh\nfaultuser:x:4242:4242:%s:/home/f:/bin/sh\nplain:x:4243:4243:p:/:/bin/sh\n" % ("G" * 3000))
        with open(os.path.join(work, "group"), "w") as f:
            f.write("root:x:0:\nfaultgroup:x:4242:%s\nplaingroup:x:4243:\n" % ",".join("member%d" % i for i in range(600)))
        names = ["username", "eusername", "group", "egroup", "tty_username", "login", "cwd", "hostname", "tty", "rpname", "cgroup", "ipaddr", "domain"]
        s = Script()
        s.raw("nosinks")
        s.raw("bind %s %s" % (os.path.join(work, "passwd").encode().hex(), b"/etc/passwd".hex()))
        s.raw("bind %s %s" % (os.path.join(work, "group").encode().hex(), b"/etc/group".hex()))
        states = [("fd-table-full", 4243, ["nofilelimit 0"]), ("entry-larger-than-lookup-buffer", 4242, []), ("both", 4242, ["nofilelimit 0"])]
        for si, (sname, uid, pre) in enumerate(states):
            s.fork(si + 1)
            s.raw("stdin pty")
            s.raw("gid %d %d %d" % (uid, uid, uid))
            s.raw("uid %d %d %d" % (uid, uid, uid))
            s.raw("vinit 0 %s %s %s" % (Script.elem(b"/bin/fault"), Script.vec([b"fault"]), Script.vec([b"E=1"])))
            for p in pre:
                s.raw(p)
            for i, n in enumerate(names):
                s.raw("vds %d %s %s 4096" % ((si + 1) * 100 + i, Script.elem(n.encode()), Script.elem(b"1" if n == "cgroup" else b"")))
            s.raw("vcleanup 0")
            s.endfork()
        res = run_vdrive(bld, s.text(), os.path.join(work, "run"), exe=exe, preload=[os.path.join(HBIN, "libvrec.so")], timeout=120, mtx=False)
        vs = {e["id"]: e for e in res.events if e["ev"] == "V"}
        truth = {4242: (b"faultuser", b"faultgroup"), 4243: (b"plain", b"plaingroup")}
        for si, (sname, uid, pre) in enumerate(states):
            for i, n in enumerate(names):
                v = vs.get((si + 1) * 100 + i)
                wit = dict(state=sname, uid=uid, datasource=n)
                if v is None:
                    F.violation("C12:lookup-fault:call-did-not-return", "%%{%s} did not return in state %s" % (n, sname), wit)
                    break
                tot["lookup_fault_fields"] = tot.get("lookup_fault_fields", 0) + 1
                got = bytes.fromhex(v["out"])
                if n in ("username", "eusername", "group", "egroup"):
                    true = truth[uid][0 if "user" in n else 1]
                    errorish = any(x in got for x in (b"ERROR", b"rror", b"Unable", b"unable", b"(unknown)", b"(undefined)"))
                    if got != true and not errorish:
                        F.violation("C12:%s:lookup-fault" % n, "%%{%s} = %s while its lookup fails (%s): id %d is %s; an error text would be truthful, another name or the no-such-id placeholder is not" % (
                            n, short(got, 80), sname, uid, true.decode()), dict(wit, got=got.decode("latin-1")[:200]))
    finally:
        rmwork(work)


def secure_arm(bld, F, tot):
    """One more process state: the calling program was started through a set-uid transition (AT_SECURE=1, real uid 12345,
    effective uid 0) - what every set-uid program that execs something looks like.  LD_PRELOAD is ignored in that mode, so
    the data sources are called in vitro: the build's static archive linked into the driver, a set-uid-root copy of which is
    started from a process that has dropped to uid 12345."""
    import shutil
    from vlib.common import mkwork, rmwork
    from vlib.drive import run_vdrive
    exe0 = vbuild.build_vitro(bld, asan=False)
    work = mkwork("c12s")
    os.chmod(work, 0o755)
    exe = os.path.join(work, "vdrive-setuid")
    shutil.copy(exe0, exe)
    os.chown(exe, 0, 0)
    os.chmod(exe, 0o4755)
    env = [b"T1=value of T1", b"T2=", b"HOME=/root", b"LOGNAME=lg", b"TZ=UTC", b"SECRET_TOKEN=s3cr3t"]
    names = [("env", b"T1"), ("env", b"T2"), ("env", b"UNSETVAR"), ("env", b"SECRET_TOKEN"), ("env_all", b""), ("uid", b""), ("euid", b""), ("gid", b""), ("egid", b""),
             ("username", b""), ("eusername", b""), ("pid", b""), ("ppid", b""), ("cwd", b"")]
    s = Script()
    s.raw("nosinks")
    s.fork(1)
    s.raw("envset " + Script.vec(env))
    s.raw("vinit 0 %s %s %s" % (Script.elem(b"/bin/secure"), Script.vec([b"secure"]), Script.vec([b"E=1"])))
    s.raw("oracle 1")
    for i, (n, a) in enumerate(names):
        s.raw("vds %d %s %s 65536" % (100 + i, Script.elem(n.encode()), Script.elem(a)))
    s.raw("vcleanup 0")
    s.endfork()
    try:
        res = run_vdrive(bld, s.text(), os.path.join(work, "run"), exe=exe, preload=[os.path.join(HBIN, "libvrec.so")], timeout=120, run_as=(12345, 12345), mtx=False)
        start = next((e for e in res.events if e["ev"] == "START"), None)
        O = next((e for e in res.events if e["ev"] == "ORACLE"), None)
        if not start or not O or not start.get("at_secure") or O["ruid"] != 12345 or O["euid"] != 0:
            raise Harness("secure-execution state could not be constructed: START=%s oracle ids=%s stderr=%s" % (start, O and (O["ruid"], O["euid"]), res.stderr[-300:]))
        vs = {e["id"] - 100: e for e in res.events if e["ev"] == "V"}
        getenv = dict(x.split(b"=", 1) for x in env)
        for i, (n, a) in enumerate(names):
            v = vs.get(i)
            wit = dict(state="AT_SECURE=1 ruid=12345 euid=0", datasource=n, arg=a.decode())
            if v is None:
                F.violation("C12:secure-exec:call-did-not-return", "%%{%s:%s} did not return in a set-uid started process" % (n, a.decode()), wit)
                break
            got = bytes.fromhex(v["out"])
            if n == "env":
                exp = {getenv.get(a, b"(undefined)")}
            elif n == "env_all":
                exp = {b",".join(env)}
            else:
                exp = {"uid": {b"12345"}, "euid": {b"0"}, "gid": {b"12345"}, "egid": {b"%d" % O["egid"]}, "pid": {b"%d" % O["pid"]}, "ppid": {b"%d" % O["ppid"]},
                       "cwd": {unhx(O["cwd"])} if "cwd" in O else None, "username": None, "eusername": {b"root"}}.get(n)
            if exp is None:
                continue
            tot["secure_exec_fields"] = tot.get("secure_exec_fields", 0) + 1
            if got not in exp:
                F.violation("C12:%s:secure-exec" % n, "%%{%s%s} = %s in a process started through a set-uid transition (AT_SECURE=1, ruid 12345, euid 0), the process state says %s" % (
                    n, (":" + a.decode()) if a else "", short(got, 80), [short(x, 80) for x in exp]), dict(wit, got=got.decode("latin-1")[:300]))
    finally:
        rmwork(work)


def main():
    t0 = time.time()
    tr = tier()
    ensure_harness()
    bld = vbuild.build("plain")
    with open(bld.config_h) as f:
        m = re.search(r'#define PACKAGE_VERSION "([^"]*)"', f.read())
    _VERSION[0] = m.group(1) if m else "?"
    states = make_states(tr)
    F, tot = run_cases(PROP, bld, states, script_fn, _check, batch_size=25, keep=False)
    secure_arm(bld, F, tot)
    fault_arm(bld, F, tot)
    if (tot.get("fields", 0) == 0 or tot.get("ok:tty", 0) == 0 or tot.get("ok:username", 0) == 0 or tot.get("secure_exec_fields", 0) == 0) and F.n_unlisted() == 0:
        raise Harness("observed too little: %s" % tot)
    if tot.get("record_count_mismatch", 0):
        raise Harness("could not attribute records to calls in %d batches" % tot["record_count_mismatch"])
    rc = F.report()
    write_evidence(PROP, "exploration", tr, dict(
        evaluations=len(states) * 3, distinct_nontrivial=len(states),
        rule="random process states: 3 pairwise distinct uids and gids from %s (with/without passwd/group entries), new session or not, cwd in root/work/180-level deep/renamed/deleted/longer than PATH_MAX, stdin own pty / pty owned by another uid / pipe / file / closed, env small/empty/3000 vars/odd names/100 kB value/NULL/SUDO_USER/LOGNAME lengths, hostname in a UTS namespace, ancestor chain 0..7, 2 strftime formats from %d; three calls per state cover all data sources; distinct = states" % (UIDS, len(STRF)),
        samples=[{k: v for k, v in s.items() if not k.startswith("_")} for s in states[:4]],
        monitor_events=tot, data_sources_checked=sorted({n.split(":")[0] for n in G1 + G2} | {"env", "env_all", "timestamp", "timestamp_ms", "timestamp_us", "datetime", "cgroup"}),
        not_checked=["systemd_unit_name (fails in this VM's baseline too)", "snoopy_configure_command"],
        build=dict(variant="plain", treehash=bld.treehash), violation_keys=sorted(F.viol)),
        time.time() - t0, F.n_unlisted(),
        ["oracle values come from raw syscalls / own /proc parsing in the same process right before the call; passwd, group, hosts and utmp are the harness's own files bind-mounted in its mount namespace",
         "uids without a passwd entry must print user-<uid> (unsigned), gids without a group entry (undefined)",
         "time-dependent sources are bracketed by the oracle's and the END event's clock readings"])
    log("[C12] %d states %s %.1fs" % (len(states), {k: v for k, v in tot.items() if not k.startswith("ok:")}, time.time() - t0))
    return rc
