/*
 * vthreads - concurrent exec calls from many threads of one process (C09 stress / race-detector arm).
 * Built plain and with -fsanitize=thread; run with LD_PRELOAD="libsnoopy.so libvrec.so".
 * Every call carries a unique token "T<t>C<i>" in its path and argument; per thread the issued tokens are written to
 * <out> together with pthread_self() and gettid(), so that the offline oracle can match records to threads.
 */
#define _GNU_SOURCE
#include <errno.h>
#include <pthread.h>
#include <sched.h>
#include <stdatomic.h>
#include <stdio.h>
#include <stdlib.h>
#include <string.h>
#include <sys/mount.h>
#include <sys/syscall.h>
#include <unistd.h>

static int T = 8, N = 50;
static unsigned SEED = 1;
static atomic_int inflight, maxinflight;
static atomic_long nreal;
static FILE *out;
static pthread_mutex_t outm = PTHREAD_MUTEX_INITIALIZER;
static pthread_barrier_t bar;

__attribute__((visibility("default"))) int vdrive_on_exec(const char *fn, const char *path, char *const argv[], char *const envp[], int *ret, int *err) {
    (void) fn; (void) path; (void) argv; (void) envp;
    atomic_fetch_add(&nreal, 1);
    *ret = -1;
    *err = ENOENT;
    return 0;
}

static unsigned rnd(unsigned *s) {
    *s = *s * 1103515245u + 12345u;
    return (*s >> 8) & 0xffffff;
}

static void one_call(const char *tok, int use_v) {
    char path[96], a1[96];
    snprintf(path, sizeof path, "/bin/%s", tok);
    snprintf(a1, sizeof a1, "arg-%s", tok);
    char *argv[] = {path, a1, NULL};
    char *envp[] = {"E=1", NULL};
    int (*volatile p_execv)(const char *, char *const *) = execv;
    int (*volatile p_execve)(const char *, char *const *, char *const *) = execve;
    int c = atomic_fetch_add(&inflight, 1) + 1;
    int m = atomic_load(&maxinflight);
    while (c > m && !atomic_compare_exchange_weak(&maxinflight, &m, c)) {}
    if (use_v) p_execv(path, argv);
    else p_execve(path, argv, envp);
    atomic_fetch_sub(&inflight, 1);
}

static void *worker(void *a) {
    int t = (int) (long) a;
    unsigned s = SEED * 7919u + t * 104729u;
    pthread_mutex_lock(&outm);
    fprintf(out, "THREAD %d %lu %ld\n", t, (unsigned long) pthread_self(), (long) syscall(SYS_gettid));
    pthread_mutex_unlock(&outm);
    pthread_barrier_wait(&bar);
    for (int i = 0; i < N; i++) {
        char tok[64];
        snprintf(tok, sizeof tok, "T%dC%dz", t, i);
        one_call(tok, (i + t) & 1);
        if ((rnd(&s) & 3) == 0)
            for (unsigned k = rnd(&s) % 4; k; k--) sched_yield();
    }
    return NULL;
}

int main(int argc, char **argv) {
    const char *mnt = NULL, *outp = "issued";
    for (int i = 1; i < argc; i++) {
        if (!strcmp(argv[i], "--mount")) mnt = argv[++i];
        else if (!strcmp(argv[i], "--threads")) T = atoi(argv[++i]);
        else if (!strcmp(argv[i], "--calls")) N = atoi(argv[++i]);
        else if (!strcmp(argv[i], "--seed")) SEED = atoi(argv[++i]);
        else if (!strcmp(argv[i], "--out")) outp = argv[++i];
    }
    if (mnt) {
        char src[4096], *c;
        snprintf(src, sizeof src, "%s", mnt);
        c = strchr(src, ':');
        *c = 0;
        if (unshare(CLONE_NEWNS) || mount("none", "/", NULL, MS_REC | MS_PRIVATE, NULL) || mount(src, c + 1, NULL, MS_BIND, NULL)) {
            perror("vthreads: namespace");
            return 3;
        }
    }
    out = fopen(outp, "w");
    if (!out) return 3;
    if (T > 256) T = 256;
    pthread_t th[256];
    pthread_barrier_init(&bar, NULL, T);
    for (long t = 0; t < T; t++) pthread_create(&th[t], NULL, worker, (void *) t);
    for (int t = 0; t < T; t++) pthread_join(th[t], NULL);
    fprintf(out, "THREAD %d %lu %ld\n", 9999, (unsigned long) pthread_self(), (long) syscall(SYS_gettid));
    one_call("LONEz", 0);
    fprintf(out, "DONE threads=%d calls=%d maxinflight=%d nreal=%ld\n", T, N, atomic_load(&maxinflight), atomic_load(&nreal));
    fclose(out);
    return 0;
}
