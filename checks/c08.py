"""C08 - the configuration file is parsed to the documented values with safe fallbacks.

Option values are read through the library's own exported option-value API (what `snoopyctl conf` prints) after the
production library parsed a generated snoopy.ini, and compared with ini_model (DESIGN A.1); the real `snoopyctl conf`
is run for a sample.  Round trip: the printed values written back as `key = value` must print the same values again.
Length options: clamp + monotonicity over dense number sets per suffix.
"""
import os
import subprocess
import time

from vlib import build as vbuild
from vlib.batch import events_of, run_cases
from vlib.common import Findings, Harness, HBIN, SYSCONF, log, mkwork, rmwork, rng_for, short, tier, write_evidence
from vlib.drive import Script, ensure_harness, pmap, run_vdrive
from checks import ini_gen, ini_model

PROP = "C08"
NAMES = ",".join(ini_model.OPTIONS)


def gen_valid_value(rng, opt, work):
    """well-formed values in all documented spellings."""
    if opt in ("message_format", "syslog_ident"):
        return rng.choice([b"plain text", b"%{cmdline}", b"[%{uid}] %{filename}: %{cmdline}", b"  padded  ", b"a#b", b"x;y", b"semi ;colon",
                           b'"quoted"', b"'single'", b"tab\there", b"=", b":", b"a=b:c", b"100%", b"", b" ", b"\"", b"trailing\\"])
    if opt == "filter_chain":
        return rng.choice([b"", b"only_root", b"only_uid:0,1;exclude_spawns_of:a,b", b"noop;", b";;", b"x:y:z"])
    if opt == "output":
        return rng.choice([b"devlog", b"devnull", b"devtty", b"stdout", b"stderr", b"noop", b"file:/var/log/x", b"file:/a:b:c", b"socket:/run/s",
                           b"file:", b"file", b"FILE:/x", b"nosuch", b"nosuch:arg", b"syslog", b"file:/p/%{datetime:%Y-%m-%d}", b"file: /spaced "])
    if opt == "syslog_facility":
        n = rng.choice(ini_model.FACILITIES)
        return rng.choice([n, "LOG_" + n, n.lower(), "log_" + n.lower(), "Log_" + n.capitalize(), n + "X", "X" + n, "LOG" + n, n + " ", "XXX_" + n]).encode()
    if opt == "syslog_level":
        n = rng.choice(ini_model.LEVELS)
        return rng.choice([n, "LOG_" + n, n.lower(), "log_" + n.lower(), n[:-1], "LOG_" + n + "S", "XXX_" + n]).encode()
    if opt.endswith("max_length"):
        k = rng.random()
        if k < 0.5:
            base = rng.choice([0, 1, 2, 254, 255, 256, 1023, 1024, 2047, 2048, 4095, 4096, 65535, 1048575, 1048576, 2097151, 2097152,
                               2**31 - 1, 2**31, 2**32 - 1, 2**32, 2**53, 10**15, 8796093022207, 8796093022208])
            n = max(0, base + rng.choice([-1, 0, 0, 1]))
        else:
            n = rng.randrange(0, 10 ** rng.randrange(1, 16))
        return (str(n) + rng.choice(["", "", "k", "K", "m", "M"])).encode()
    if opt == "error_logging":
        return rng.choice([b"yes", b"no", b"Yes", b"NO", b"y", b"n", b"true", b"false", b"T", b"F", b"1", b"0", b"on", b"off", b"", b"2", b"yep", b"nope"])
    raise ValueError(opt)


def gen_file(rng, work):
    """file from the supported grammar with per-option well-formed values and near misses."""
    k = rng.random()
    if k < 0.25:
        return ini_gen.gen_ini(rng, work).replace(b"\0", b"")
    lines = []
    if rng.random() < 0.1:
        lines.append(b"\xef\xbb\xbf; bom + comment")
    sect = rng.choice([b"[snoopy]"] * 6 + [b"[other]", b" [snoopy]", b"[snoopy] ; trailing", b"[Snoopy]"])
    lines.append(sect)
    for _ in range(rng.randrange(1, 10)):
        r = rng.random()
        if r < 0.75:
            opt = rng.choice(ini_model.OPTIONS)
            val = gen_valid_value(rng, opt, work) if rng.random() < 0.8 else ini_gen.option_value(rng, opt, work).replace(b"\0", b"")
            lines.append(ini_gen.render_line(rng, opt.encode(), val))
        elif r < 0.82:
            lines.append(rng.choice([b"; c", b"# c", b"", b"unknown_option = 5", b"message_formatx = no"]))
        elif r < 0.88:
            lines.append(rng.choice([b"[other]", b"[snoopy]"]))
        elif r < 0.94:
            lines.append(rng.choice([b"  continuation text", b"\t%{pid}", b"   300k", b"  LOCAL5"]))
        else:
            lines.append(rng.choice([b"garbage without separator", b"=", b"[unterminated"]))
    nl = rng.choice([b"\n", b"\n", b"\r\n"])
    return nl.join(lines) + (nl if rng.random() < 0.85 else b"")


def make_cases(tr):
    rng = rng_for(PROP, tr)
    n = 4000 if tr == "quick" else 100000
    cases = [dict(id=i + 1, data=gen_file(rng, "/w"), cls="grammar") for i in range(n)]
    # dense length ladders for monotonicity
    cid = n
    for opt in ("datasource_message_max_length", "log_message_max_length"):
        for suf in ("", "k", "m"):
            nums = sorted(set([0, 1, 2, 3, 254, 255, 256, 257, 1023, 1024, 1025, 2046, 2047, 2048, 2049, 4095, 4096, 4097, 65535, 65536, 1048575, 1048576,
                               2097151, 2097152, 2097153, 4194303, 4194304, 2**31 - 1, 2**31, 2**31 + 1, 2**32 - 1, 2**32, 2**32 + 1, 2**41, 2**43, 2**53,
                               10**9, 10**12, 10**15] + [rng.randrange(0, 10 ** rng.randrange(1, 16)) for _ in range(40 if tr == "quick" else 400)]))
            for x in nums:
                cid += 1
                cases.append(dict(id=cid, data=("[snoopy]\n%s = %d%s\n" % (opt, x, suf)).encode(), cls="ladder", opt=opt, suf=suf, n=x))
    return cases


def script_fn(c, B, s):
    s.fork(c["id"])
    s.conf(c["data"])
    s.raw("confdump %d %s" % (c["id"], NAMES))
    s.endfork()


def get_defaults(bld):
    work = mkwork("c08d")
    try:
        s = Script()
        s.raw("confrm")
        s.raw("confdump 1 " + NAMES)
        res = run_vdrive(bld, s.text(), work)
        ev = [e for e in res.events if e["ev"] == "CONF"]
        if not ev:
            raise Harness("cannot read built-in defaults: %s" % res.stderr[-300:])
        return {k: bytes.fromhex(v).decode("latin-1") for k, v in ev[0]["values"].items()}
    finally:
        rmwork(work)


DEFAULTS = {}


def check_fn(c, evs, B):
    wit = dict(config=c["data"].decode("latin-1"))
    ch = events_of(evs, "CHILD")
    if ch and (ch[0]["signal"] or ch[0]["status"]):
        B.F.violation("C08:parser-died:sig%d" % ch[0]["signal"], "process died while parsing %s" % short(c["data"], 200), wit)
        return
    ev = events_of(evs, "CONF")
    if not ev:
        raise Harness("no CONF event for case %d" % c["id"])
    got = {k: bytes.fromhex(v).decode("latin-1") for k, v in ev[0]["values"].items()}
    want = ini_model.model(c["data"], DEFAULTS)
    B.count("files")
    for o in ini_model.OPTIONS:
        w = want[o]
        if w is ini_model.OPEN:
            B.count("open_values")
            continue
        B.count("values")
        if got[o] != DEFAULTS[o]:
            B.count("non_default_values")
        if got[o] not in w:
            kind = {"message_format": "string", "filter_chain": "string", "syslog_ident": "string", "output": "output", "error_logging": "bool",
                    "syslog_facility": "syslog-name", "syslog_level": "syslog-name"}.get(o, "length")
            B.F.violation("C08:%s:%s" % (kind, o), "option %s = %r, model accepts %r; file %s" % (o, got[o][:80], sorted(w)[:3], short(c["data"], 300)),
                          dict(wit, option=o, got=got[o], accepted=sorted(w)))
    if c["cls"] == "ladder":
        B.st.setdefault("_ladder", []).append((c["opt"], c["suf"], c["n"], int(got[c["opt"]])))
    B.st.setdefault("_values", []).append((c["id"], got))


def render_back(vals, quote):
    lines = [b"[snoopy]"]
    for o in ini_model.OPTIONS:
        v = vals[o].encode("latin-1")
        lines.append(o.encode() + b" = " + v)
    return b"\n".join(lines) + b"\n"


def main():
    t0 = time.time()
    tr = tier()
    ensure_harness()
    bld = vbuild.build("plain")
    DEFAULTS.update(get_defaults(bld))
    cases = make_cases(tr)
    F, tot = run_cases(PROP, bld, cases, script_fn, check_fn, batch_size=100)
    ladder = tot.pop("_ladder", [])
    values = tot.pop("_values", [])
    # monotonicity
    groups = {}
    for opt, suf, n, v in ladder:
        groups.setdefault((opt, suf), []).append((n, v))
    for (opt, suf), pts in groups.items():
        pts.sort()
        for (n1, v1), (n2, v2) in zip(pts, pts[1:]):
            if n1 >= 1 and v2 < v1:
                F.violation("C08:length-not-monotone", "%s: %d%s -> %d but %d%s -> %d" % (opt, n1, suf, v1, n2, suf, v2), dict(option=opt, points=[(n1, v1), (n2, v2)]))
            tot["ladder_pairs"] = tot.get("ladder_pairs", 0) + 1
    # round trip: what the real `snoopyctl conf` prints for the file, used as a config file, must give the same settings
    seen = set()
    todo = []
    data_by_id = {c["id"]: c["data"] for c in cases}
    for cid, got in values:
        key = tuple(sorted(got.items()))
        if key in seen:
            continue
        seen.add(key)
        todo.append((bld, cid, data_by_id[cid], got))
    outs = pmap(run_snoopyctl_conf, todo, 16)
    rt = []
    nsample = 0
    for (b_, cid, data, got), (rcode, out, err) in zip(todo, outs):
        nsample += 1
        if rcode != 0:
            F.violation("C08:snoopyctl-conf-failed", "snoopyctl conf exited %d" % rcode, dict(config=data.decode("latin-1"), stderr=err.decode("latin-1")[-300:]))
            continue
        # every option is printed, with the value the API reports (bare or quoted)
        text = out.decode("latin-1")
        for o in ini_model.OPTIONS:
            if ("%s = %s\n" % (o, got[o])) not in text and ("%s = \"%s\"\n" % (o, got[o])) not in text:
                F.violation("C08:snoopyctl-conf-differs-from-api", "snoopyctl conf does not print %s = %r" % (o, got[o][:60]), dict(stdout=text[:1500]))
        rt.append(dict(id=len(rt) + 1, data=out, orig=got))
    F2, tot2 = run_cases(PROP, bld, rt, script_fn, rt_check_global, batch_size=100)
    from vlib.batch import merge_findings
    merge_findings(F, F2)
    tot.update(tot2)
    tot["snoopyctl_conf_runs"] = nsample
    if (tot.get("non_default_values", 0) == 0 or tot.get("roundtrips", 0) == 0) and F.n_unlisted() == 0:
        raise Harness("monitor observed too little: %s" % tot)
    rc = F.report()
    write_evidence(PROP, "exploration", tr, dict(
        evaluations=len(cases) + len(rt), distinct_nontrivial=len({c["data"] for c in cases}),
        rule="files from the inih grammar (sections, =/: separators, ;/# comments, inline comments, quotes, BOM, continuation, duplicates, CRLF, over-long lines) with per-option well-formed values, near misses and garbage; length ladders 0..10^15 per suffix; every distinct printed value set is written back (round trip); distinct = distinct file contents",
        samples=[short(c["data"], 200) for c in cases[:4]] + [short(c["data"], 80) for c in cases[-2:]],
        monitor_events=tot, defaults=DEFAULTS, build=dict(variant="plain", treehash=bld.treehash), violation_keys=sorted(F.viol)),
        time.time() - t0, F.n_unlisted(),
        ["ini_model.py encodes DESIGN A.1 (inih r5x build flags of this repository + Snoopy's quote-stripping patch)",
         "open points accept several values: unparsable boolean/syslog name (default or previous), length 0, trailing garbage after a length, a lone quote character, doubled LOG_ prefix"])
    log("[C08] %d files %s %.1fs" % (len(cases), {k: v for k, v in tot.items()}, time.time() - t0))
    return rc


def run_snoopyctl_conf(arg):
    bld, cid, data, got = arg
    work = mkwork("c08s")
    try:
        confdir = os.path.join(work, "conf")
        os.makedirs(confdir)
        with open(os.path.join(confdir, "snoopy.ini"), "wb") as f:
            f.write(data)
        r = subprocess.run([os.path.join(HBIN, "vns"), "%s:%s" % (confdir, SYSCONF), bld.snoopyctl, "conf"], capture_output=True, timeout=30,
                           env={"PATH": "/usr/bin:/bin", "SNOOPY_TEST_LIBSNOOPY_SO_PATH": bld.lib})
        return r.returncode, r.stdout, r.stderr
    finally:
        rmwork(work)


def rt_check_global(c, evs, B):
    ev = events_of(evs, "CONF")
    if not ev:
        raise Harness("no CONF event in round trip")
    got = {k: bytes.fromhex(v).decode("latin-1") for k, v in ev[0]["values"].items()}
    B.count("roundtrips")
    for o in ini_model.OPTIONS:
        if got[o] != c["orig"][o]:
            v = c["orig"][o]
            why = "leading-or-trailing-blank" if v != v.strip() else ("enclosing-quotes" if len(v) >= 2 and v[0] == v[-1] and v[0] in "\"'" else (
                "inline-comment-sequence" if " ;" in v or "\t;" in v else ("lone-quote" if v in ("\"", "'") else "other")))
            if any(len(l) > 1023 for l in c["data"].split(b"\n")):
                why = "printed-line-exceeds-1023-bytes"
            B.F.violation("C08:roundtrip:%s" % why, "option %s: value %r as printed by snoopyctl conf, used as a config file, reads %r" % (o, v[:80], got[o][:80]),
                          dict(option=o, value=v, reread=got[o], snoopyctl_conf_output=c["data"].decode("latin-1")))
