/*
 * vfuzz - libFuzzer target for C02 (thorough tier): bytes -> snoopy.ini (+ a few bytes steering the exec input), then one full
 * logging action through the internals of the clang/ASan/UBSan-built static archive (exactly the sequence of the wrapper:
 * init -> store inputs -> log_syscall_exec -> cleanup).
 *
 * Safety: before anything else the process enters a private mount namespace with $VFUZZ_CONF bind-mounted over the
 * compile-time sysconfdir, changes into $VFUZZ_WORK and drops to uid 12345, so a fuzzed "output = file:..." can only
 * write where an unprivileged user can.
 */
#define _GNU_SOURCE
#include <fcntl.h>
#include <sched.h>
#include <stdint.h>
#include <stdio.h>
#include <stdlib.h>
#include <string.h>
#include <sys/mount.h>
#include <sys/socket.h>
#include <sys/stat.h>
#include <sys/un.h>
#include <unistd.h>

extern void snoopy_init(void);
extern void snoopy_cleanup(void);
extern void snoopy_inputdatastorage_store_filename(const char *);
extern void snoopy_inputdatastorage_store_argv(char *const *);
extern void snoopy_inputdatastorage_store_envp(char *const *);
extern void snoopy_action_log_syscall_exec(void);

static char conf_path[4096];

int LLVMFuzzerInitialize(int *argc, char ***argv) {
    (void) argc; (void) argv;
    const char *conf = getenv("VFUZZ_CONF"), *dst = getenv("VFUZZ_SYSCONF"), *work = getenv("VFUZZ_WORK");
    if (!conf || !dst || !work) {
        fprintf(stderr, "vfuzz: VFUZZ_CONF / VFUZZ_SYSCONF / VFUZZ_WORK must be set\n");
        exit(3);
    }
    if (unshare(CLONE_NEWNS) || mount("none", "/", NULL, MS_REC | MS_PRIVATE, NULL) || mount(conf, dst, NULL, MS_BIND, NULL)) {
        perror("vfuzz: namespace");
        exit(3);
    }
    snprintf(conf_path, sizeof conf_path, "%s/snoopy.ini", dst);
    if (chdir(work)) exit(3);
    if (setresgid(12345, 12345, 12345) || setresuid(12345, 12345, 12345)) {
        perror("vfuzz: drop privileges");
        exit(3);
    }
    /* keep stdout/stderr outputs of the library away from libFuzzer's own stderr */
    int fd = open("/dev/null", O_WRONLY);
    if (fd >= 0) dup2(fd, 1);
    return 0;
}

int LLVMFuzzerTestOneInput(const uint8_t *data, size_t size) {
    if (size < 4) return 0;
    /* first 3 bytes steer the exec input, the rest is the file */
    unsigned a = data[0], b = data[1], c = data[2];
    data += 3;
    size -= 3;
    int fd = open(conf_path, O_WRONLY | O_CREAT | O_TRUNC, 0644);
    if (fd < 0) return 0;
    if (write(fd, data, size) != (ssize_t) size) {
        close(fd);
        return 0;
    }
    close(fd);

    static char big[70000];
    size_t bl = (size_t) (a % 8) * 9000;
    memset(big, 'A', bl);
    big[bl] = 0;
    char *argv_some[] = {"prog", "arg one", big, "%s%n", NULL};
    char *argv_empty[] = {NULL};
    char *envp[] = {"HOME=/h", "LOGNAME=l", NULL};
    char *const *av = (b % 4 == 0) ? NULL : (b % 4 == 1) ? argv_empty : argv_some;

    snoopy_init();
    snoopy_inputdatastorage_store_filename((c & 1) ? "" : "/bin/fuzzed-path");
    snoopy_inputdatastorage_store_argv(av);
    snoopy_inputdatastorage_store_envp((c & 2) ? NULL : envp);
    snoopy_action_log_syscall_exec();
    snoopy_cleanup();
    return 0;
}
