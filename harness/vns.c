/* vns SRC:DST cmd args... - run a command in a private mount namespace with SRC bind-mounted over DST. */
#define _GNU_SOURCE
#include <sched.h>
#include <stdio.h>
#include <string.h>
#include <sys/mount.h>
#include <unistd.h>
int main(int argc, char **argv) {
    if (argc < 3) { fprintf(stderr, "usage: vns SRC:DST cmd...\n"); return 3; }
    char *c = strchr(argv[1], ':');
    if (!c) return 3;
    *c = 0;
    if (unshare(CLONE_NEWNS) || mount("none", "/", NULL, MS_REC | MS_PRIVATE, NULL) || mount(argv[1], c + 1, NULL, MS_BIND, NULL)) {
        perror("vns");
        return 3;
    }
    execvp(argv[2], argv + 2);
    perror("vns: exec");
    return 3;
}
