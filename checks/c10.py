"""C10 - exec in a forked child of a multithreaded process never deadlocks.

fault_enumeration over fork points: victim thread(s) of the parent are stopped at their k-th stop point inside a wrapped
call - right after each lock acquisition (inside the critical section) and right after each unlock - for every k of one
call (discovered dynamically); another thread forks; the child makes a wrapped exec call (directly, after forking again,
or from a new thread).  Oracle: the child's call reaches the real exec and the child exits (verdict from the child's
state: parked in futex/wait with no progress over three samples = deadlock, never from timing alone), its record is
there, and the released victims finish their own calls.
"""
import json
import os
import re
import subprocess
import time

from vlib import build as vbuild
from vlib.common import Findings, Harness, HBIN, SYSCONF, log, mkwork, rmwork, rng_for, tier, write_evidence
from vlib.drive import kill_stragglers, ensure_harness, pmap

PROP = "C10"
FMT = '%{filename}|%{cmdline}|%{tid_kernel}|%{snoopy_threads}'


def run_fork(arg):
    bld, stop_at, kind, victims, out, child_kind, root, idx = arg[:8]
    heap = len(arg) > 8 and arg[8]          # C16's fork arm: allocator monitor loaded, child reports Snoopy's live blocks
    extra = arg[9] if len(arg) > 9 else ""  # further config lines (C16: options given twice)
    work = os.path.join(root, "f%04d" % idx)
    conf = os.path.join(work, "conf")
    os.makedirs(conf, exist_ok=True)
    logp = os.path.join(work, "log")
    outspec = {"file": "file:" + logp, "devlog": "devlog", "socket": "socket:" + os.path.join(work, "nosock"), "stdout": "stdout"}[out]
    with open(os.path.join(conf, "snoopy.ini"), "w") as f:
        f.write('[snoopy]\n%smessage_format = "%s"\noutput = %s\n' % (extra, FMT, outspec))
    env = {"PATH": "/usr/bin:/bin", "LD_PRELOAD": "%s %s" % (bld.lib, os.path.join(HBIN, "libvrec.so")), "VREC_DEVLOG": os.path.join(work, "nodevlog")}
    if heap:
        env["LD_PRELOAD"] += " " + os.path.join(HBIN, "libvheap.so")
        env["VSCHED_CHILDHEAP"] = os.path.join(work, "childheap")
    try:
        r = subprocess.run([os.path.join(HBIN, "vsched"), "--mount", "%s:%s" % (conf, SYSCONF), "--mode", "fork", "--log", logp, "--calls", "1",
                            "--victims", str(victims), "--stop-at", str(stop_at), "--stop-kind", kind, "--child-kind", str(child_kind)],
                           env=env, capture_output=True, timeout=120, cwd=work)
    except subprocess.TimeoutExpired:
        kill_stragglers(work)
        return dict(harness_timeout=1, arg=arg[1:6])
    kill_stragglers(work)           # a deadlocked child or grandchild of the scenario must not outlive it
    ev = None
    for line in r.stdout.splitlines():
        try:
            e = json.loads(line)
            if e.get("ev") == "FORK":
                ev = e
        except ValueError:
            pass
    if ev is None:
        return dict(no_event=1, rc=r.returncode, stderr=r.stderr.decode("latin-1")[-300:], arg=arg[1:6])
    ev["out"] = out
    if heap:
        try:
            with open(os.path.join(work, "childheap")) as f:
                hp = json.loads(f.read())
                ev["child_heap"] = hp["snoopy_live"]
                ev["child_bad_frees"] = hp.get("snoopy_bad_frees", 0)
                ev["child_bad_free_bt"] = hp.get("bad_free_bt", [])
                ev["child_blocks"] = hp["blocks"]
        except (OSError, ValueError):
            ev["child_heap"] = None
    import shutil
    shutil.rmtree(work, ignore_errors=True)
    return ev


# ------------------------------------------------------------------ storm arm: forks landing inside the I/O the library (and libc for it) does

STORM_FORMATS = [
    ("datetime", "%{datetime} %{datetime:%Y-%m-%dT%H:%M:%S%z} %{cmdline}"),
    ("names", "%{username} %{eusername} %{group} %{egroup} %{tty_username} %{cmdline}"),
    ("login-ipaddr", "%{login} %{ipaddr} %{tty} %{cmdline}"),
    ("proc", "%{rpname} %{cgroup:1} %{cwd} %{hostname} %{domain} %{cmdline}"),
    ("default", None),
]


def symbolize_stuck(bld, text):
    """'lib(+0xoff)' / 'lib(sym+0xoff)' lines of backtrace_symbols_fd -> the libc function waiting for the lock (first libc frame
    below the lock-wait frame) and the innermost Snoopy function."""
    libc_fn, sn_fn = None, None
    lines = text.splitlines()
    for i, line in enumerate(lines):
        if "lll_lock_wait" in line:
            lines = lines[i + 1:]
            break
    for line in lines:
        m = re.match(r"^(\S+?)\((\w*)\+?(0x[0-9a-f]+)?\)\[", line)
        if not m:
            continue
        lib, sym, off = m.group(1), m.group(2), m.group(3)
        if "libsnoopy" in lib and sn_fn is None:
            if sym and not sym.startswith("exec"):
                sn_fn = sym
            elif off and not sym:
                try:
                    out = subprocess.run(["addr2line", "-f", "-e", bld.lib, off], capture_output=True, text=True, timeout=20).stdout.split("\n")
                    sn_fn = out[0]
                except Exception:
                    pass
        if "libc.so" in lib and libc_fn is None and "lll_lock_wait" not in sym and off:
            if sym:
                libc_fn = sym
            else:
                try:
                    out = subprocess.run(["gdb", "-batch", "-ex", "info symbol %s" % off, lib], capture_output=True, text=True, timeout=30).stdout.strip().split("\n")[-1]
                    mm = re.match(r"^(\w+)", out)
                    if mm and "No" not in out[:3]:
                        libc_fn = mm.group(1)
                except Exception:
                    pass
    return libc_fn, sn_fn


def run_storm(arg):
    bld, fname, fmt, out, threads, forks, delay_us, root, idx = arg[:9]
    first_delay = arg[9] if len(arg) > 9 else 0
    work = os.path.join(root, "st%03d" % idx)
    conf = os.path.join(work, "conf")
    os.makedirs(conf, exist_ok=True)
    outspec = {"file": "file:" + os.path.join(work, "log"), "file-template": "file:" + os.path.join(work, "log-%{datetime:%Y%m%d}"), "devlog": "devlog", "syslog": "syslog"}[out]
    with open(os.path.join(conf, "snoopy.ini"), "w") as f:
        f.write("[snoopy]\n" + ('message_format = "%s"\n' % fmt if fmt else "") + "output = %s\n" % outspec)
    env = {"PATH": "/usr/bin:/bin", "TZ": ":/etc/localtime", "VREC_DEVLOG": os.path.join(work, "nodevlog")}
    pl = "%s %s" % (bld.lib, os.path.join(HBIN, "libvrec.so"))
    cmd = ["strace", "-f", "-o", "/dev/null", "-E", "LD_PRELOAD=" + pl, "-e", "trace=openat,read,connect", "-e", "inject=openat,read,connect:delay_exit=%d" % delay_us,
           os.path.join(HBIN, "vforkstorm"), "--mount", "%s:%s" % (conf, SYSCONF), "--threads", str(threads), "--forks", str(forks), "--child-ms", "8000", "--first-delay-ms", str(first_delay)]
    if fname == "login-ipaddr":
        # a utmp file with a few hundred entries, so that the lookups really read it
        up = os.path.join(work, "utmp")
        import struct
        with open(up, "wb") as f:
            for n in range(300):
                f.write(struct.pack("hi32s4s32s256shhiii4i20s", 7, 1000 + n, b"pts/%d" % n, b"%d" % n, b"user%d" % n, b"host%d.example.org" % n, 0, 0, 0, 0, 0, 10, 1, 2, 3, b""))
        cmd += ["--utmp-from", up]
    pr = subprocess.Popen(cmd, env=env, stdout=subprocess.PIPE, stderr=subprocess.PIPE, text=True, cwd=work)
    try:
        so, se = pr.communicate(timeout=300)
        r = subprocess.CompletedProcess(cmd, pr.returncode, so, se)
    except subprocess.TimeoutExpired:        # (still running: look at its threads before anything is killed)
        # the storm process itself did not finish: are its threads all parked in a lock wait (a parent thread that never gets
        # the registry lock back after a fork), or is it just slow?
        states = []
        for d in os.listdir("/proc"):
            if not d.isdigit():
                continue
            try:
                with open("/proc/%s/cmdline" % d, "rb") as f:
                    cl = f.read()
                if work.encode() not in cl or b"vforkstorm" not in cl:
                    continue
                for t in os.listdir("/proc/%s/task" % d):
                    with open("/proc/%s/task/%s/syscall" % (d, t)) as f:
                        states.append(f.read().split()[0])
            except OSError:
                continue
        pr.kill()
        kill_stragglers(work)
        try:
            pr.communicate(timeout=10)
        except subprocess.TimeoutExpired:
            pass
        if states and all(x in ("202", "61", "247") for x in states):
            return dict(parent_stuck=1, fname=fname, out=out, fmt=fmt, threads=threads, task_syscalls=states[:20])
        return dict(harness_timeout=1, fname=fname, out=out, task_syscalls=states[:20])
    kill_stragglers(work)
    ev = None
    for line in r.stdout.splitlines():
        try:
            e = json.loads(line)
            if e.get("ev") == "STORM":
                ev = e
        except ValueError:
            pass
    if ev is None:
        return dict(no_event=1, rc=r.returncode, stderr=r.stderr[-300:], fname=fname, out=out)
    ev.update(fname=fname, out=out, fmt=fmt, delay_us=delay_us)
    ev["stuck"] = []
    for blk in r.stderr.split("STUCK-CHILD-BACKTRACE")[1:]:
        ev["stuck"].append(symbolize_stuck(bld, blk) + (blk[:1500],))
    import shutil
    shutil.rmtree(work, ignore_errors=True)
    return ev


def storm_arm(bld, tr, rng, root, F, tot):
    jobs = []
    idx = 0
    for fname, fmt in STORM_FORMATS:
        for out in (("file", "devlog") if tr == "quick" else ("file", "file-template", "devlog", "syslog")):
            for rep in range(1 if tr == "quick" else 6):
                jobs.append((bld, fname, fmt, out, rng.choice([4, 8]), 60 if tr == "quick" else 200, rng.choice([10000, 30000]), root, idx)); idx += 1
    # bursts: many short-lived processes whose forks land while the threads make their very first calls (libc initialises time
    # zone data, NSS, stdio lazily and under its own locks at that moment)
    for fname, fmt in STORM_FORMATS[:3]:
        for rep in range(10 if tr == "quick" else 150):
            jobs.append((bld, fname, fmt, "file", 4, 3, 30000, root, idx, rng.randrange(0, 200))); idx += 1
    for ev in pmap(run_storm, jobs, 8):
        tot["storm_runs"] = tot.get("storm_runs", 0) + 1
        if ev.get("parent_stuck"):
            F.violation("C10:storm:parent-threads-stuck", "the forking process itself never finished: all its threads sit in a lock wait after forks made while %d threads were logging (format %s, output %s)" % (
                ev["threads"], ev["fname"], ev["out"]), ev)
            continue
        if ev.get("harness_timeout") or ev.get("no_event"):
            tot["storm_inconclusive"] = tot.get("storm_inconclusive", 0) + 1
            log("[C10] inconclusive storm run: %s" % (ev,))
            continue
        tot["storm_forks"] = tot.get("storm_forks", 0) + ev["forks"]
        tot["storm_children_completed"] = tot.get("storm_children_completed", 0) + ev["completed"]
        tot["storm_worker_calls"] = tot.get("storm_worker_calls", 0) + ev["worker_calls"]
        desc = "format %s, output %s, %d threads logging, every openat/read/connect delayed by %d us" % (ev["fname"], ev["out"], ev["threads"], ev["delay_us"])
        wit = {k: v for k, v in ev.items() if k != "stuck"}
        if ev["blocked"]:
            # a child counts as deadlocked only if its own stack (printed 3 s into the call) shows it waiting for a lock; a child
            # that is merely slow on a loaded machine is inconclusive
            stuck = [x for x in ev["stuck"] if "lll_lock_wait" in x[2] or "futex" in x[2] or "pthread_mutex_lock" in x[2]]
            if not stuck:
                tot["storm_inconclusive"] = tot.get("storm_inconclusive", 0) + 1
                log("[C10] storm run with %d unfinished children but no lock wait on their stacks: inconclusive (%s)" % (ev["blocked"], desc))
            for libc_fn, sn_fn, bt in stuck[:3]:
                F.violation("C10:storm:child-deadlock:%s-in-%s" % (libc_fn or "unknown", sn_fn or "unknown"),
                            "%d of %d children forked while other threads were logging never finished their own exec call (blocked in syscall %s); one is waiting in %s called from %s (%s)" % (
                                ev["blocked"], ev["forks"], ev["blocked_syscall"][:30], libc_fn, sn_fn, desc), dict(wit, backtrace=bt))
        if ev["died"]:
            F.violation("C10:storm:child-died", "%d of %d children died before finishing their exec call (%s)" % (ev["died"], ev["forks"], desc), wit)


def main():
    t0 = time.time()
    tr = tier()
    ensure_harness()
    bld = vbuild.build("plain")
    rng = rng_for(PROP, tr)
    root = mkwork("c10")
    # discover the stop points of one call
    probe = run_fork((bld, 99999, "in-lock", 1, "file", 0, root, 0))
    if "points_seen" not in probe or probe["points_seen"] < 4:
        raise Harness("could not discover stop points: %s" % probe)
    npoints = probe["points_seen"]
    jobs = []
    idx = 1
    base = [(k, "any") for k in range(1, npoints + 1)]
    for k, kind in base:                                   # every point, simplest scenario
        jobs.append((bld, k, kind, 1, "file", 0, root, idx)); idx += 1
    outs = ["file", "devlog", "socket", "stdout"]
    extra = []
    for k, kind in base:
        for victims in (1, 2, 3):
            for out in outs:
                for ck in (0, 1, 2):
                    if (victims, out, ck) != (1, "file", 0):
                        extra.append((k, kind, victims, out, ck))
    rng.shuffle(extra)
    for (k, kind, victims, out, ck) in extra[: (80 if tr == "quick" else 3000)]:
        jobs.append((bld, k, kind, victims, out, ck, root, idx)); idx += 1
    results = pmap(run_fork, jobs, 12)
    rmwork(root)
    F = Findings(PROP)
    tot = dict(scenarios=0, valid=0, in_lock=0, after_unlock=0, child_completed=0, inconclusive=0, not_parked=0)
    samples = []
    for job, ev in zip(jobs, results):
        tot["scenarios"] += 1
        if ev.get("harness_timeout") or ev.get("no_event"):
            tot["inconclusive"] += 1
            log("[C10] inconclusive scenario: %s" % (ev,))
            continue
        if ev["parked"] < 1:
            tot["not_parked"] += 1
            continue
        tot["valid"] += 1
        kind_ = ev["stop_kind"]
        if kind_.startswith("io:"):
            tot["at_io"] = tot.get("at_io", 0) + 1
            tot.setdefault("_io_kinds", set()).add(kind_)
        else:
            tot["in_lock" if kind_ == "in-lock" else "after_unlock"] += 1
        wit = {k: v for k, v in ev.items() if k != "records"}
        wit["records"] = ev["records"][:6]
        desc = "victims=%d stopped %s at point %d, output=%s, child variant %d" % (ev["victims"], ev["stop_kind"], ev["stop_at"], ev["out"], ev["child_kind"])
        if len(samples) < 5:
            samples.append(dict(scenario=desc, child_done=ev["child_done"], victims_done=ev["victims_done"]))
        if not ev["child_done"]:
            if ev["child_blocked_samples"] >= 3:
                F.violation("C10:child-deadlock:%s" % ev["stop_kind"].replace("io:", "at-io-"), "child of fork never finished its exec call: blocked in syscall %s (%s)" % (ev["child_syscall"][:40], desc), wit)
            else:
                tot["inconclusive"] += 1
            continue
        if ev["child_reached_end"] not in ("C", "G", "T") or ev["child_status"] != 0:
            F.violation("C10:child-died", "child exited with %s before finishing its exec call (%s)" % (ev["child_status"], desc), wit)
            continue
        tot["child_completed"] += 1
        if ev["out"] == "file":
            want = {0: "CHILDz", 1: "GRANDCHILDz", 2: "CHILDTHREADz"}[ev["child_kind"]]
            recs = [r for r in ev["records"] if r.startswith("/bin/" + want + "|")]
            if len(recs) != 1:
                F.violation("C10:child-record-count=%d" % len(recs), "child's call produced %d records (%s)" % (len(recs), desc), wit)
            elif recs[0].split("|")[-1] != "1":
                tot["child_saw_parent_threads_registered"] = tot.get("child_saw_parent_threads_registered", 0) + 1     # informational: not part of the property
        if ev.get("fork_waited_for_lock") and ev["stop_kind"] in ("io:open", "io:write", "io:close", "io:socket", "io:send", "io:flock"):
            # the forking thread had to wait until another thread got on with the I/O on its *log sink*: a sink that blocks
            # (FIFO without reader, full pipe) then blocks fork() itself for as long
            F.violation("C10:fork-waits-for-log-sink", "fork() in another thread did not return while a thread was stopped right before %s of its log output (%s)" % (ev["stop_kind"][3:], desc), wit)
        if ev["victims_done"] != ev["victims"]:
            F.violation("C10:parent-thread-stuck", "%d of %d parent threads finished after the fork (%s)" % (ev["victims_done"], ev["victims"], desc), wit)
        if ev["problem"]:
            F.violation("C10:" + ev["problem"].split(":")[0], "%s (%s)" % (ev["problem"], desc), wit)
    root2 = mkwork("c10s")
    storm_arm(bld, tr, rng, root2, F, tot)
    rmwork(root2)
    if tot.get("storm_children_completed", 0) == 0 and F.n_unlisted() == 0:
        raise Harness("storm arm observed nothing: %s" % tot)
    if tot.get("storm_inconclusive", 0) > max(2, tot.get("storm_runs", 0) // 10) and F.n_unlisted() == 0:
        raise Harness("too many inconclusive storm runs: %s" % tot)
    if (tot["in_lock"] == 0 or tot["after_unlock"] == 0 or tot.get("at_io", 0) == 0) and F.n_unlisted() == 0:
        raise Harness("fork points not reached: %s" % tot)
    if (tot["inconclusive"] > max(2, tot["scenarios"] // 50)) and F.n_unlisted() == 0:
        raise Harness("too many inconclusive scenarios: %s" % tot)
    io_kinds = sorted(tot.pop("_io_kinds", set()))
    tot["io_stop_kinds"] = io_kinds
    rc = F.report()
    write_evidence(PROP, "fault_enumeration", tr, dict(
        evaluations=tot["valid"], distinct_nontrivial=tot["valid"],
        rule="one scenario per stop point k of %d in one wrapped call (right after each lock acquisition, right after each unlock, right before each open/write/close/socket/send/flock/fopen/fclose the library issues) with 1 victim/file output/direct exec, plus sampled (k, kind) x victims 1..3 x output {file,devlog,socket,stdout} x child {exec, fork-again-then-exec, exec from a new thread}; a scenario counts only if the victim really parked there" % npoints,
        samples=samples, stop_points_per_call=npoints, monitor_events=tot,
        build=dict(variant="plain", treehash=bld.treehash), violation_keys=sorted(F.viol)),
        time.time() - t0, F.n_unlisted(),
        ["fork points are taken at Snoopy's own synchronisation operations (after each lock acquisition / unlock); a fork at an arbitrary instruction inside a critical section is equivalent to one right after the acquisition for the inherited-lock question",
         "deadlock verdict = child not finished and three /proc/<pid>/syscall samples show it parked in futex/wait4; a slow child is inconclusive"])
    log("[C10] %s %.1fs" % (tot, time.time() - t0))
    return rc
