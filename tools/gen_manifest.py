#!/usr/bin/env python3
"""Regenerates /verif/MANIFEST.json from the table below (single source of truth for what is claimed)."""
import json, os, subprocess
V = os.path.dirname(os.path.dirname(os.path.abspath(__file__)))
ALL = ["C%02d" % i for i in range(1, 21)]

CHECKS = {
 "C01": dict(level="exploration", design="3/C01", technique="runtime monitoring: recording exec interposer + offline per-call oracle",
   text="Every generated call (config x path/argv/envp shape x outcome, every errno) is executed through the production libsnoopy.so with a recording execv/execve where RTLD_NEXT resolves; the oracle checks exactly-once, pointer identity, deep content hashes before/at/after, ret/errno delivery, no sink activity after the real call, mutex depth 0 and empty thread registry at the real call, and the argv/envp seen by a really exec'd image. Held on the executions observed, not a proof.",
   note="Trusts: LD_PRELOAD symbol order (libvrec.so right after libsnoopy.so), the driver's own hashing, strace-free observation; shapes are sampled, not exhaustive."),
 "C02": dict(level="exploration", design="3/C02", technique="compiler sanitizers (ASan+UBSan, reports fatal) over generated/mutated configs and inputs, in vivo and in vitro",
   text="ASan+UBSan builds of the working tree (thread-safe and not) are driven, one process per case, with grammar-generated and byte-mutated snoopy.ini files crossed with exec shapes and hostile environments (environ==NULL, thousands of variables, 1 MiB values) through the production entry points; the same build's static archive is linked into an instrumented harness that calls every data source / filter / output / helper with exact-size heap buffers from 257 bytes to 1 MiB+1 under hostile process states. Any sanitizer report, fatal signal, watchdog firing, missing real exec or unterminated result buffer is a violation.",
   note="Red-zone sanitizers see adjacent overflows and UB on the paths the workload reaches only; a clean run is not memory safety. A coverage-guided libFuzzer arm (clang build, config bytes -> full logging action) runs in both tiers."),

 "C03": dict(level="fault_enumeration", design="3/C03", technique="strace syscall fault injection at every I/O syscall between wrapper entry and real exec + natural hostile sink states",
   text="For each scenario (every output x all-sources / single-source / default formats x filter chains) a baseline trace yields the ordered syscalls between the driver's BEGIN and REAL markers; every I/O syscall position is failed with errnos from a per-syscall table (one rotating errno per position in quick, every errno in thorough), plus persistent faults (the syscall keeps failing from position k on) and sampled two-fault runs; a run counts only if (INJECTED) shows inside the window. Natural sink states without injection: absent/dir/unwritable/ENOSPC file targets, absent socket, datagram socket with full unread queue (socket and devlog), stream listener, closed and reader-less stdout/stderr, no controlling tty, unreadable config, deleted cwd. Oracle from the trace: real exec reached exactly once, scripted ret/errno delivered, no signal, bounded window, no watchdog firing.",
   note="strace's injection replaces the syscall by the error (no side effects of the real call); timing is never a verdict; allocation failure (mmap/brk) is outside the domain; FIFO-as-log-file and TOSTOP background-tty scenarios are not judged."),

 "C04": dict(level="exploration", design="3/C04", technique="runtime monitoring: driver-owned sinks sampled at the real-exec instant + format/frame oracle",
   text="All sinks a record could reach (log files, stdout/stderr pipes, pty, datagram sockets for socket: and redirected /dev/log) are owned by the driver and sampled at call begin, at the instant the recording exec is entered and after return; the oracle demands exactly M+newline / one datagram M / one datagram <pri>ident[pid]: M at the configured sink only, already at the real-exec instant, nothing later, and nothing at all for dropped or empty messages; successful real execs are checked from the parent side.",
   note="Message carried in argv through %{cmdline}; /dev/log redirected by an interposed connect(); OS datagram size limit and pty capacity bound the sizes used for those sinks."),
 "C05": dict(level="exploration", design="3/C05 + Appendix A.2", technique="runtime monitoring against an executable reference model of the format language",
   text="Records produced by the production library under generated formats, limits and inputs are compared byte for byte with format_model.py whenever the expansion fits both limits; otherwise the two bounds and the order/prefix structure of marker pieces are asserted. Covers grammar-generated formats, boundary steering of both limits (-1/0/+1/far above) for limits 255..1048575, syslog ident and output-path templates.",
   note="Model written from the documentation; after an unknown data source both stop and continue are accepted; formats limited to what one INI line carries (longer ones: in-vitro arm of C02)."),
 "C06": dict(level="exploration", design="3/C06", technique="runtime monitoring of call histories with unique tokens",
   text="Histories of 2..50 consecutive wrapped calls in one process, every call carrying unique tokens, are run against the thread-safe, non-thread-safe and ASan builds; each record must be filename/cmdline of its own call (exact when within the limit, prefix above it, path fallback for NULL/empty argv) and contain no token of another call.",
   note="Records are read from the socket output; above the limit only the prefix property is asserted."),
 "C07": dict(level="exploration", design="3/C07 + Appendix A.4", technique="runtime monitoring, exhaustive small chains + metamorphic comparison",
   text="All chains of up to 3 (quick) / 4 (thorough) elements over a 14-spec alphabet under real uid {0,U} x stdin {pty,pipe}, plus random chains of up to 20 elements, are evaluated by the production library; logged/dropped is compared with chain_model, a drop must leave every sink empty with the exec still happening once, and chains with equal element sets must decide equally.",
   note="Filter verdicts are derived from the process state the harness itself set up (uid, pty, ancestor names read from /proc)."),
 "C08": dict(level="exploration", design="3/C08 + Appendix A.1", technique="runtime monitoring against an executable reference model of the INI dialect and option rules",
   text="Generated snoopy.ini files (full inih grammar: sections, both separators, comments, inline comments, quotes, BOM, continuation lines, duplicates, CRLF, over-long lines; per-option valid spellings, near misses, garbage; numbers 0..10^15 with each suffix) are parsed by the production library and the values reported by its exported option-value API are compared with ini_model.py; length options are additionally checked for monotonicity over dense ladders; the output of the real `snoopyctl conf` is fed back as a config file and must reproduce every setting.",
   note="ini_model mirrors the documented inih build flags of this repository; open points (unparsable boolean/name: default or previous; length 0; trailing garbage; lone quote; doubled LOG_ prefix) accept several values. Effects of the parsed values on records are covered by C04 (priority, ident, sink)."),

 "C09": dict(level="exploration", design="3/C09 + 2.5", technique="controlled scheduler (systematic schedule exploration at synchronisation points) + ThreadSanitizer stress + record oracle",
   text="Arm (a): vsched interposes pthread_mutex_lock/unlock/pthread_once for calls coming from libsnoopy.so, runs the worker threads one at a time and executes every schedule of 2..4 threads x 1..3 failing wrapped calls with at most 2 (quick) / 3 (thorough) preemptions, each in a fresh process; per schedule it checks deadlock, lock leak, lock-held-at-real-exec, exactly one record per call with the caller's own token, pthread id and kernel tid, snoopy_threads within range and ==1 for the closing lone call. Arm (b): the -fsanitize=thread build under 8..64 real threads with each data source in turn first in the format, zero reports required; arm (c): single-threaded non-thread-safe build.",
   note="Exhaustive only at synchronisation-point granularity within the preemption bound (adequate when the race-detector arm is clean); TSan is a happens-before detector on instrumented code only."),
 "C10": dict(level="fault_enumeration", design="3/C10 + 2.5", technique="controlled fork points: victims parked at every lock acquisition / unlock of a wrapped call, fork from another thread, child liveness from /proc state",
   text="Using the same interposed lock functions, 1..3 victim threads are parked right after each lock acquisition (inside the critical section) and right after each unlock of one wrapped call (all points discovered dynamically); another thread forks and the child makes a wrapped exec call (directly, after forking again, or from a new thread) under file/devlog/socket/stdout outputs. The child must reach the real exec and exit (deadlock = parked in futex/wait over three /proc samples), its record must be there once, and the released parent threads must finish. If fork() itself waits for the library's lock, the victims are released and the fork proceeds (reported, not judged).",
   note="Fork instants are taken at Snoopy's synchronisation operations, not at arbitrary instructions; timing alone never decides."),

 "C11": dict(level="exploration", design="3/C11", technique="runtime monitoring of configuration histories, differential against a fresh process, ASan + allocator monitor",
   text="Histories of 2..30 wrapped calls in one long-lived process with snoopy.ini rewritten between calls from a pool covering every option (valid, invalid, duplicated), emptied, deleted, made unreadable, replaced by a directory or corrupted; each call's sink gains must equal those of the same call made first in a fresh process under the same file state (pid normalised). Thread-safe and non-thread-safe builds, plain and ASan (double frees); an interposed allocator checks that a second pass over the history leaves no additional Snoopy allocation live.",
   note="Destinations and records are observed at driver-owned sinks; the history runs as uid 12345 so that chmod 000 really makes the file unreadable."),

 "C12": dict(level="exploration", design="3/C12", technique="runtime monitoring against an in-process independent oracle of the constructed process state",
   text="Process states are constructed as root (pairwise distinct real/effective/saved uids and gids with and without passwd/group entries up to 2^32-2, sessions, deep/renamed/deleted/over-long cwd, stdin on own pty / foreign-owned pty / pipe / file / closed, UTS hostnames, environments incl. NULL and odd names, ancestor chains, utmp entries with IPv4/IPv6 addresses); right before each wrapped call the driver emits an ORACLE event from raw syscalls and its own /proc parsing, and the record with every data source is compared field by field with values derived offline from that event, the harness's own passwd/group/hosts/utmp files (bind-mounted in its mount namespace) and a time bracket.",
   note="systemd_unit_name and snoopy_configure_command are not judged; placeholder wording for ids without entries is open (numeric form must carry the true unsigned id); assumes /etc/localtime is UTC in this sandbox."),

 "C13": dict(level="exploration", design="3/C13", technique="runtime introspection of compiled registries over enumerated build configurations (name -> implementation symbol map) + end-to-end configure builds",
   text="For every enumerated configuration (all on, all off, each with thread safety on/off, each single feature off, each single feature on, every pair off in thorough, random subsets) the three registry translation units of the working tree are compiled against that configuration's config.h, linked with all implementation objects, and a probe walks names[i]/ptrs[i]; nm resolves each pointer and the oracle demands name X -> snoopy_datasource_X / snoopy_filter_X / snoopy_output_Xoutput, the exact enabled name set, intact terminators and equal array lengths. 4 (quick) / 24 (thorough) configurations are also built with the repo's real ./configure --disable-... and every name is called through the lookup-by-name path in a state where all sources give different values.",
   note="The quantifier's 'all 2^N combinations at once from the guard structure' is a static argument that this runtime technique does not attempt: single-, pair- and random-subset configurations are what is covered."),

 "C14": dict(level="exploration", design="3/C14", technique="runtime monitoring under constructed uids",
   text="Children running under real uid R (0, 1, 999, 2^16-1, 2^16, 2^31-1, 2^31, 2^32-2) with an unrelated effective uid consult only_uid:L, exclude_uid:L and only_root through the production library for generated lists with near misses; outcomes are compared with exact set membership and only_uid xor exclude_uid.",
   note="Through snoopy.ini lists are limited to one config line (about 85 uids); lists of 100..200 uids are fed to the filters directly (in-vitro arm)."),

 "C15": dict(level="exploration", design="3/C15", technique="runtime monitoring under constructed process ancestries",
   text="The driver builds real process chains of depth 1..12 (fork + prctl(PR_SET_NAME) per level) with generated kernel names (spaces, parentheses, exactly 15 and longer than 15 bytes, prefixes and case variants of each other); the leaf makes the wrapped call under exclude_spawns_of:<list>. logged <=> no ancestor (generated chain + the harness's real ancestors read from /proc, never the leaf itself) is in the list; with /proc hidden inside the driver's mount namespace the call must be logged whatever the list says.",
   note="Names containing ',' ';' or '\"' cannot be expressed in a filter_chain value and are not generated."),

 "C16": dict(level="exploration", design="3/C16", technique="runtime monitoring: before/at-real-exec/after snapshots of process state + interposed allocator with backtrace attribution",
   text="For runs of one warm-up plus 2..200 wrapped calls under generated configurations (every data source, every output including unreachable, full and unwritable sinks, filters with empty arguments, invalid and duplicate options, error logging), uids, stdin kinds and controlling ttys, the driver compares /proc/self/fd (targets + cloexec), environ pointer and hash, cwd, umask, signal mask, all sigactions and the lock depth before the call, at the instant the real exec is entered and after return; an interposed allocator attributes live blocks to Snoopy by backtrace and demands that nothing allocated during a call is live at the real exec and that the live count does not grow over the run. Thread-safe and non-thread-safe builds.",
   note="Allocator attribution by backtrace (first 10 frames); libc one-time caches absorbed by the warm-up call; the strace-injected error paths share this oracle in the C03 check's residue arm."),

 "C17": dict(level="exploration", design="3/C17", technique="strace per-record syscall monitor + concurrent-writer stress with self-describing records",
   text="Arm 1 traces the syscalls Snoopy issues for each record (sizes 1 B..1 MiB incl. 4094..4097/8191..8193 and random sizes; file with pre-existing content, devnull, devtty): exactly one open of the target with O_APPEND and no O_TRUNC, exactly one write whose length and return value equal the whole record, no truncation, earlier bytes intact. Arm 2 lets 2..16 writers (processes x threads) append self-describing records of mixed sizes through the production library and requires the file to parse as whole records whose multiset equals what was issued.",
   note="Relies on the kernel's atomicity of a single write(2) on an O_APPEND descriptor; stress covers the interleavings that happened, not all."),

 "C18": dict(level="exploration", design="3/C18-C19", technique="runtime monitoring of the real snoopyctl against a reference model, exhaustive over small files",
   text="The snoopyctl built from the working tree is run (enable, enable again, status) on every ld.so.preload content of up to 3 (quick) / 4 (thorough) lines over a 20-kind line alphabet, terminated and unterminated, plus absent/empty and thousands of random files; file bytes, exit status and status output are compared with preload_model. Exhaustive for the enumerated small files, sampled beyond.",
   note="Trusts the SNOOPY_TEST_* path overrides (the suite's own mechanism) and the model of 'comment line' / 'active entry' in DESIGN A.3; open points of the property accept several outcomes."),
 "C19": dict(level="exploration", design="3/C18-C19", technique="runtime monitoring of the real snoopyctl against a reference model, exhaustive over small files",
   text="`snoopyctl disable` and the enable;disable round trip are run on the same exhaustively enumerated and random files; a token- and line-level oracle demands that only the own entry disappears, refusals leave the file untouched and are justified by >=2 active mentions.",
   note="Same trusted base as C18; what happens to a trailing comment on the entry's own line is left open."),
 "C20": dict(level="fault_enumeration", design="3/C20", technique="strace fault/kill injection at every syscall boundary + file-content oracle",
   text="For a set of initial contents (empty, small, unterminated, 5 kB, 70 kB; entry first/middle/last) every syscall position of an enable/disable run is used as a crash point (SIGKILL before syscall k, proven by the trace) and every write-type syscall is failed with ENOSPC/EIO/EDQUOT; afterwards the file must equal the complete old or the complete new content.",
   note="Crash points are syscall boundaries of the traced runs only (power loss / page-cache effects are not modelled); strace semantics as measured in DESIGN section 1."),
}

# what later rounds added to each check (appended to the level text)
ADDED = {
 "C02": " A memcheck arm (valgrind --track-origins on about 480 in-vitro cases of the plain build, stack dirtied before each call) reports uninitialised reads, which the compiler sanitizers cannot see.",
 "C03": " Natural states include a stream listener that never accepts, repeated calls on sinks with bounded queues, a log file that has reached the caller's own file size limit (SIGXFSZ), a log file flock()ed by another process and a full descriptor table (0..2 free slots), /proc/<pid>/cgroup replaced by a 12 KiB file (bind mount in the driver's namespace). Persistent faults on read and openat start at every position of the window in turn.",
 "C09": " Stress variants: NULL and {NULL} argument vectors mixed into every thread, 256 KiB thread stacks under the largest configurable limits, a socket sink whose sends all fail, long uid / program lists, and a bystander thread that never execs and watches its own descriptors, the process umask (read from /proc) and the working directory while the others log; formats that drive data sources into their own error paths; a run whose threads all end up parked in a lock wait is a violation (threads-stuck).",
 "C04": " Includes a FIFO log file whose reader attaches late, dropped calls with over-long messages under error_logging=yes, and observed calls in a forked child after a priming call in the parent.",
 "C10": " Stop points also lie right before every I/O call the library issues (open, write, close, socket, send, flock, fopen, fclose). A storm arm keeps 4-8 threads logging (formats using the time, passwd/group, utmp and /proc sources; file, devlog, syslog outputs) while the main thread forks 60-200 times, with every openat/read/connect delayed by 10-30 ms under strace, plus bursts of short-lived processes whose forks land in the very first calls (lazy initialisation inside libc); every child makes one wrapped call and must finish; an unfinished child counts only if its own stack, printed from a signal handler, shows a lock wait. A fork() that has to wait while a thread is stopped right before an I/O call of its log output is a violation too (fork-waits-for-log-sink).",
 "C12": " A third of the states live in an orphaned process tree (top re-parented to pid 1) whose root process carries a generated name (leading blanks/tabs, parentheses, status-key look-alikes); errno on entry is varied. timestamp_ms / timestamp_us are bracketed between two microsecond clock readings. A secure-execution arm starts a set-uid-root copy of the in-vitro driver from uid 12345 (AT_SECURE=1, ruid != euid) and checks the env / id sources there. A lookup-fault arm (in vitro) asks the name sources with a full descriptor table and with passwd/group entries larger than the lookup buffer: an error text is accepted, a wrong name or the no-such-id placeholder is not.",
 "C13": " The probe also drives each registry's lookup-by-name functions with every name of the all-on build, each proper prefix, the empty name and extended/upper-case spellings (about 1 280 candidates per configuration): an absent name must be unknown, a present one must resolve to its own index. The end-to-end builds (one of them without devlog, the registry's first output) also run the reduced production library through snoopy.ini: every remaining output must receive the record when named, every remaining filter must decide as its name says.",
 "C05": " Path templates also run under a lowered datasource_message_max_length with a source output longer than it, spread over pre-created directory levels (the template has its own fixed limit).",
 "C07": " A third case class gives filter_chain twice (first value empty, passing, dropping or unknown): only the last value decides.",
 "C14": " The errno the caller holds on entry (0, ERANGE, EINVAL, EINTR, EOVERFLOW, ENOENT) is varied per case.",
 "C16": " The compared state includes the set of pending signals; some runs have stdout / stderr as a pipe whose reader is gone with SIGPIPE blocked by the caller. Callers start with blocked / ignored signals (SIGPIPE among them) and a stale errno, and the first call of a run is judged as well (all but the heap). A fork arm on the controlled scheduler parks another thread at every stop point of a wrapped call, forks, and the child - allocator monitor loaded - must track its own thread only, keep no configuration string of the vanished threads after its own complete call, and free only live blocks (runs also start from an absent / unreadable / directory snoopy.ini; the lock depth of the calling thread is judged after the call has returned as well as at the real exec; formats drive data sources into their error paths; stop points include the instant right after every free() the library issues; the allocator monitor counts frees of blocks that are not live, in all arms).",
 "C17": " Three traced cases run on a tmpfs that fills up mid-record (short write, then ENOSPC): no truncation, no second attempt, bytes in front unchanged. A writer process dying in the stress arm is a violation.",
 "C18": " A third of the inputs come with a left-over ld.so.preload.snoopy-tmp of an earlier killed run (longer than the result, or very short); the alphabet (20 line kinds) includes entries and comments with % conversions; files of 10 KiB to 200 KiB (4 MiB in thorough) with the entry absent / first / middle / last; a fifth of the commands is started without stdout / stderr / stdin, and for an eighth of the inputs ld.so.preload is a symbolic link.",
 "C19": " Same left-over temporary files and % lines as C18.",
 "C20": " Further arms: every scenario under RLIMIT_FSIZE of 0, 1, half and length-1 of the new content with SIGXFSZ ignored (short write) and fatal; and a history arm (run killed right before its rename leaves its temporary file, the file then gets shorter, the command runs again: the result must equal a run without that history); rename failing with EBUSY / EXDEV / EPERM followed by a kill before each of the remaining system calls (two faults); every injected non-write fault is repeated with the command started without stdout and without stderr.",
}


def main():
    for k, v in ADDED.items():
        CHECKS[k]["text"] += v
    hooks_commits = []
    m = {
      "version": 1,
      "setup_cmd": "python3 verif.py setup",
      "hooks": {
        "guard": "A2O_SNOOPY_VERIF",
        "enable": "every verification build is configured in a scratch copy with CFLAGS containing -DA2O_SNOOPY_VERIF (vlib/build.py); no hook code exists in /repo so far",
        "baseline_off_cmd": "sh /verif/tools/baseline_off.sh",
        "source_commits": hooks_commits,
        "add_only": True
      },
      "engines": [
        {"name": "verif.py", "path": "verif.py", "serves_properties": sorted(CHECKS), "kind_free_text": "python orchestrator: builds /repo's working tree per sanitizer variant, runs C harness programs (harness/) under LD_PRELOAD / strace, offline oracles in checks/"}
      ],
      "checks": [],
      "notes": "Technique family: runtime monitoring and sanitizers. See DESIGN.md. Exit 0 held / 1 violation / 2 harness failure or inconclusive.",
      "not_applicable": []
    }
    for p in ALL:
        if p in CHECKS:
            c = CHECKS[p]
            m["checks"].append({
              "property_id": p,
              "quick_cmd": "VERIF_TIER=quick python3 verif.py check %s" % p,
              "thorough_cmd": "VERIF_TIER=thorough python3 verif.py check %s" % p,
              "evidence_file": "evidence/%s.json" % p,
              "replay_cmd_template": "cat {path}",
              "engine": "verif.py",
              "level_claimed": {"category": c["level"], "text": c["text"], "design_ref": "DESIGN.md section " + c["design"]},
              "level_note": c["note"],
              "technique": c["technique"],
            })
        else:
            m["not_applicable"].append({"property_id": p, "reason": "check not built yet in this round (planned in DESIGN.md section 3; the technique does apply)"})
    with open(os.path.join(V, "MANIFEST.json"), "w") as f:
        json.dump(m, f, indent=1)
    try:
        import jsonschema
        jsonschema.validate(m, json.load(open("/root/.vp/MANIFEST.schema.json")))
        print("MANIFEST.json valid,", len(m["checks"]), "checks")
    except ImportError:
        print("written (jsonschema unavailable in this interpreter)")
if __name__ == "__main__":
    main()
