"""C02 - no configuration or exec input can crash or corrupt the calling process.

Sanitizer-monitored (ASan+UBSan, reports fatal, one process per case):
 in vivo : production libsnoopy.so of the asan / asan-nts build preloaded; generated and byte-mutated snoopy.ini files
           crossed with exec shapes and process environments (normal, empty, thousands of variables, 128 KiB and 1 MiB
           values, environ==NULL).  Oracle: no sanitizer report, no fatal signal, no watchdog, real exec reached once.
 in vitro: the asan build's static archive linked into the harness; every data source / filter / output / helper is
           called directly with exact-size heap buffers of 257..1 MiB+1 bytes under hostile process states; additionally
           strnlen(result) < size after every data source call.
"""
import os
import time

from vlib import build as vbuild
from vlib.batch import events_of, merge_findings, run_cases
from vlib.common import Findings, Harness, HBIN, log, rng_for, short, tier, write_evidence
from vlib.drive import Script, ensure_harness, san_key
from checks import ini_gen
from checks.c01 import ARGV_KINDS, ENV_KINDS, PATH_KINDS, gen_env, gen_path, gen_vec

PROP = "C02"
BOUNDARY = [0, 1, 99, 100, 254, 255, 256, 257, 2046, 2047, 2048, 4094, 4095, 4096, 4097, 16382, 16383, 16384, 65534, 65535, 65536,
            131072, 1048574, 1048575, 1048576]
SIZES = [257, 258, 511, 1024, 2048, 4096, 65536, 1048576, 1048577]


# ------------------------------------------------------------------ in vivo

def make_vivo(tr, n):
    rng = rng_for(PROP, "vivo" + tr)
    cases = []
    base = None
    for i in range(n):
        sub = rng.randrange(1 << 30)
        cases.append(dict(id=i + 1, sub=sub, mut=(rng.random() < 0.35), envk=rng.choice(["normal", "normal", "empty", "many", "bigval", "null", "hugeval"]),
                          ak=rng.choice(ARGV_KINDS + ["s64k"]), ek=rng.choice(ENV_KINDS), pk=rng.choice(PATH_KINDS),
                          fn=rng.choice(["execv", "execve"]), big=rng.choice(BOUNDARY), p4k=rng.choice([4000, 4094, 4095, 4096, 5000])))
    return cases


def vivo_conf(c, work):
    import random
    rng = random.Random(c["sub"])
    data = ini_gen.gen_ini(rng, work)
    if c["mut"]:
        data = ini_gen.mutate(rng, data)
    return data


def vivo_script(c, B, s):
    import random
    rng = random.Random(c["sub"] ^ 0x5a5a)
    tok = "c%06d" % c["id"]
    s.fork(c["id"])
    s.conf(vivo_conf(c, B.work))
    if c["mut"]:
        s.raw("uid 12345 12345 12345")      # byte-mutated files may name arbitrary output paths: do not write them as root
    ek = c["envk"]
    if ek == "normal":
        env = [b"HOME=/root", b"LOGNAME=root", b"PATH=/bin", b"SUDO_USER=su", ("rep", 1, b"BIG=" + b"B" * c["big"]), ("rep", 1, b"P4K=" + b"p" * c["p4k"])]
        s.raw("envset " + Script.vec(env))
    elif ek == "empty":
        s.raw("envset empty")
    elif ek == "many":
        s.raw("envset " + Script.vec([b"HOME=/h", ("times", 2000, b"VAR=" + b"v" * 30), b"BIG=" + b"B" * min(c["big"], 70000)]))
    elif ek == "bigval":
        s.raw("envset " + Script.vec([("rep", 131072, b"Q"), b"BIG=" + b"B" * c["big"], b"=x", b"NOEQ"]))
    elif ek == "hugeval":
        s.raw("envset " + Script.vec([b"BIG=" + b"B" * 1048576, b"LOGNAME=" + b"L" * 300, b"SUDO_USER=" + b"S" * 254]))
    else:
        s.raw("envnull")
    if rng.random() < 0.15:
        s.raw("stdin pty")
    elif rng.random() < 0.1:
        s.raw("stdin closed")
    path = gen_path(c["pk"], tok)
    argv = gen_vec(rng, c["ak"], tok)
    envp = gen_env(rng, c["ek"], tok)
    s.call(c["id"], c["fn"], path, argv, envp, -1, 2)
    s.endfork()


def classify_death(c, evs, B, what):
    """common oracle for vivo/vitro: returns True if the case died / hung / was reported."""
    ch = events_of(evs, "CHILD")
    if not ch:
        if getattr(B, "timeout", False):
            return True
        raise Harness("no CHILD event for case %d" % c["id"])
    ch = ch[0]
    rep = B.res.san_by_pid.get(ch["pid"])
    if not rep:
        # libubsan ignores log_path: its report arrives on the process's stderr, which is one of the driver's sinks
        err = ch.get("sinks", {}).get("stderr", "")
        try:
            err = bytes.fromhex(err).decode("latin-1")
        except ValueError:
            err = ""
        for e in evs:
            if e["ev"] in ("REAL", "END") and e.get("sinks", {}).get("stderr"):
                try:
                    err += bytes.fromhex(e["sinks"]["stderr"]).decode("latin-1")
                except ValueError:
                    pass
        if "runtime error:" in err:
            rep = err[err.index("runtime error:") - 200 if err.index("runtime error:") > 200 else 0:]
    if rep:
        key = san_key(rep)
        B.count("sanitizer_reports")
        B.F.violation("C02:san:%s" % key, "%s: sanitizer report %s" % (what, key), dict(case=c, report=rep[:6000]))
        return True
    if ch.get("timeout"):
        B.F.violation("C02:hang:%s" % ch.get("hang_syscall", "?").split(" ")[0], "%s: no progress for 20 s (syscall: %s)" % (what, ch.get("hang_syscall")), dict(case=c))
        return True
    if ch["signal"]:
        B.F.violation("C02:signal-%d" % ch["signal"], "%s: process died with signal %d without a sanitizer report" % (what, ch["signal"]), dict(case=c))
        return True
    if ch["status"] != 0:
        B.F.violation("C02:exit-%d" % ch["status"], "%s: process exited with %d" % (what, ch["status"]), dict(case=c))
        return True
    return False


def vivo_check(c, evs, B):
    conf = vivo_conf(c, B.work)
    desc = "in vivo: config %s, env=%s argv=%s envp=%s path=%s %s" % (short(conf, 200), c["envk"], c["ak"], c["ek"], c["pk"], c["fn"])
    c = dict(c, conf=conf.decode("latin-1"))
    B.count("vivo_cases")
    if classify_death(c, evs, B, desc):
        return
    real = events_of(evs, "REAL")
    if len(real) != 1:
        B.F.violation("C02:real-exec-count=%d" % len(real), "%s: real exec reached %d times" % (desc, len(real)), dict(case=c))
        return
    B.count("vivo_real")


# ------------------------------------------------------------------ in vitro

DS_NAMES = ["cgroup", "cmdline", "cwd", "datetime", "domain", "egid", "egroup", "env", "env_all", "euid", "eusername", "filename", "gid", "group",
            "hostname", "ipaddr", "login", "pid", "ppid", "rpname", "sid", "snoopy_configure_command", "snoopy_literal", "snoopy_threads",
            "snoopy_version", "systemd_unit_name", "tid", "tid_kernel", "timestamp", "timestamp_ms", "timestamp_us", "tty", "tty_uid",
            "tty_username", "uid", "username", "failure", "noop", "nosuchsource"]
FILTER_NAMES = ["exclude_spawns_of", "exclude_uid", "only_root", "only_tty", "only_uid", "noop", "nosuch"]
OUTPUT_NAMES = ["devlog", "devnull", "devtty", "file", "socket", "stderr", "stdout", "noop", "nosuch"]


def ds_arg(rng, name):
    if name == "datetime":
        return rng.choice([b"", b"%s", b"%Y-%m-%d", b"%c %c %c %c %c %c %c %c %c %c", b"%", b"%%", b"%Ez", b"x" * 300, b"%A" * 100, b"%c" * 40])
    if name == "env":
        return rng.choice([b"HOME", b"BIG", b"", b"NOPE", b"=", b"A=B", b"x" * 1000])
    if name == "cgroup":
        return rng.choice([b"", b"0", b"1", b"99", b"name=systemd", b"cpu", b"cpu,cpuacct", b",", b":", b"0:", b"x" * 500, b"00000", b"\xff"])
    if name == "snoopy_literal":
        return rng.choice([b"", b"x", b"y" * 1000, bytes(range(1, 256))])
    return rng.choice([b"", b"", b"arg", b"z" * 1000])


def make_vitro(tr, n):
    rng = rng_for(PROP, "vitro" + tr)
    cases = []
    for i in range(n):
        k = rng.random()
        c = dict(id=i + 1, state=rng.choice(["plain", "plain", "deepcwd", "bigenv", "nullenv", "pty", "closedstdin", "uid", "longname", "manyargs", "loginenv"]))
        if k < 0.55:
            name = rng.choice(DS_NAMES)
            if c["state"] == "loginenv":
                name = "login"
            c.update(op="ds", name=name, arg=ds_arg(rng, name), size=rng.choice(SIZES + [rng.randrange(257, 5000)]))
        elif k < 0.65:
            name = rng.choice(FILTER_NAMES)
            arg = rng.choice([b"", b"0", b"0,1,2", b",", b",,,", b"a,b", b"bash,sshd,vinvitro", b"1" * 1000, b"-1", b"99999999999999999999999", b"x" * 1023,
                              b",".join([b"12345"] * 200), b"vdrive", b"(", b")", b"a b"])
            c.update(op="filter", name=name, arg=arg)
        elif k < 0.75:
            name = rng.choice(OUTPUT_NAMES)
            msg = rng.choice([b"", b"m", b"M" * 4095, b"M" * 4096, b"M" * 70000, bytes(range(1, 256))])
            arg = rng.choice([b"", b"WORK/log", b"WORK/sock", b"WORK/nosock", b"/dev/full", b"/nonexistent/x", b"WORK", b"WORK/%{env:BIG}", b"s" * 107, b"s" * 108,
                              b"s" * 300, b"WORK/" + b"%{snoopy_literal:" + b"q" * 900 + b"}", b"WORK/" + b"d/" * 2000])
            c.update(op="output", name=name, msg=msg, arg=arg)
        elif k < 0.87:
            size = rng.choice([256, 257, 258, 1024, 4096, 16384, 65536, 1048576])
            dsmax = rng.choice([255, 256, 2047, size - 1, size, 1048575])
            nt = rng.choice([0, 1, 98, 99, 100, 101, 150, 1000, 1123, 1124, 1125, 3000])
            fmt = rng.choice([b"%{snoopy_literal:" + b"t" * nt + b"}", b"%{" + b"n" * nt + b"}", b"%{env:BIG}%{env:BIG}", b"L" * (size - 2) + b"%{env:HOME}",
                              b"L" * size + b"%{pid}", b"%{cmdline}%{filename}", b"%{env_all}", b"%{" + b"x" * nt, b"%{failure}" * 50, b"%{nosuch:" + b"a" * nt + b"}",
                              b"a" * (size - 1), b"a" * size, b"a" * (size + 1), b"%{env:" + b"N" * nt + b"}tail"])
            c.update(op="fmt", size=size, dsmax=dsmax, fmt=fmt)
        elif k < 0.92:
            size = rng.choice([1, 2, 16, 256, 4096])
            il = rng.randrange(0, size)
            al = rng.choice([0, 1, size - il - 2, size - il - 1, size - il, size - il + 1, size * 2])
            c.update(op="append", size=size, ini=b"i" * il, app=b"a" * max(0, al))
        elif k < 0.96:
            c.update(op=rng.choice(["sysfac", "syslvl"]), text=ini_gen.v_syslog_name(rng, ini_gen.FACILITIES + ini_gen.LEVELS).replace(b"\x00", b""))
        elif k < 0.985:
            c.update(op="bytelen", text=ini_gen.v_length(rng).replace(b"\x00", b""))
        else:
            c.update(op="chain", text=ini_gen.v_chain(rng))
        cases.append(c)
    return cases


def vitro_script(c, B, s):
    s.fork(c["id"])
    st = c["state"]
    env = [b"HOME=/root", b"LOGNAME=lg", b"BIG=" + b"B" * 70000, b"PATH=/bin"]
    argv = [b"prog", b"a1", b"a 2"]
    if st == "deepcwd":
        s.raw("chdir " + (B.work + "/deep").encode().hex())
    elif st == "bigenv":
        env = [b"HOME=/h", ("times", 5000, b"K=" + b"v" * 40), ("rep", 200000, b"Z"), b"BIG=" + b"B" * 1048576]
    elif st == "pty":
        s.raw("stdin pty")
    elif st == "closedstdin":
        s.raw("stdin closed")
    elif st == "uid":
        s.raw("uid 4000000000 65534 4000000000")
    elif st == "longname":
        s.raw("name " + b"fifteen-chars-xx".hex())
    elif st == "manyargs":
        argv = [b"p", ("times", 5000, b"arg"), ("rep", 300000, b"w")]
    elif st == "loginenv":
        n = [253, 254, 255, 256, 1000][c["id"] % 5]
        env = [b"SUDO_USER=" + b"S" * n, b"LOGNAME=" + b"L" * [254, 255, 253][c["id"] % 3], b"HOME=/root"] if c["id"] % 2 else [b"LOGNAME=" + b"L" * n, b"HOME=/root"]
    if st == "nullenv":
        s.raw("envnull")
    else:
        s.raw("envset " + Script.vec(env))
    s.raw("vinit 0 %s %s %s" % (Script.elem(b"/bin/vitro-path"), Script.vec(argv), Script.vec([b"E=1"])))
    o = c["op"]
    w = B.work.encode()
    if o == "ds":
        s.raw("vds %d %s %s %d" % (c["id"], Script.elem(c["name"].encode()), Script.elem(c["arg"]), c["size"]))
    elif o == "filter":
        s.raw("vfilter %d %s %s" % (c["id"], Script.elem(c["name"].encode()), Script.elem(c["arg"])))
    elif o == "output":
        s.raw("voutput %d %s %s %s" % (c["id"], Script.elem(c["name"].encode()), Script.elem(c["msg"]), Script.elem(c["arg"].replace(b"WORK", w))))
    elif o == "fmt":
        s.raw("vfmt %d %d %d %s" % (c["id"], c["size"], c["dsmax"], Script.elem(c["fmt"])))
    elif o == "append":
        s.raw("vappend %d %d %s %s" % (c["id"], c["size"], Script.elem(c["ini"]), Script.elem(c["app"])))
    elif o in ("sysfac", "syslvl"):
        s.raw("v%s %d %s" % (o, c["id"], Script.elem(c["text"])))
    elif o == "bytelen":
        s.raw("vbytelen %d %s 255 1048575 2047" % (c["id"], Script.elem(c["text"])))
    elif o == "chain":
        s.raw("vchain %d %s" % (c["id"], Script.elem(c["text"])))
    s.raw("vcleanup 0")
    s.endfork()


def vitro_script_with_dirs(c, B, s):
    """creates, once per batch, a deep working directory for the cwd source."""
    deep = B.work + "/deep"
    if not os.path.isdir(deep):
        os.makedirs(deep, exist_ok=True)
        cur = os.getcwd()
        try:
            os.chdir(deep)
            for _ in range(40):
                os.mkdir("d" * 100)
                os.chdir("d" * 100)
        finally:
            os.chdir(cur)
        os.makedirs(B.work + "/d", exist_ok=True)
    vitro_script(c, B, s)


def vitro_check(c, evs, B):
    what = "in vitro %s %s state=%s" % (c["op"], {k: (short(v, 50) if isinstance(v, bytes) else v) for k, v in c.items() if k not in ("id", "op", "state")}, c["state"])
    B.count("vitro_cases")
    cj = {k: (v.decode("latin-1") if isinstance(v, bytes) else v) for k, v in c.items()}
    if classify_death(cj, evs, B, what):
        return
    v = events_of(evs, "V")
    if len(v) != 1:
        raise Harness("no result event for vitro case %d (%s)" % (c["id"], what))
    v = v[0]
    B.count("vitro_" + c["op"])
    if c["op"] in ("ds", "fmt", "append") and not v["nul_ok"]:
        B.F.violation("C02:result-not-terminated:%s" % (c.get("name") or c["op"]), "%s: result buffer of %d bytes has no NUL inside" % (what, v["size"]), dict(case=cj))
    if c["op"] == "bytelen" and not (255 <= v["ret"] <= 1048575):
        B.F.violation("C02:length-out-of-range", "%s: parsed length %d outside [255, 1048575]" % (what, v["ret"]), dict(case=cj))


# ------------------------------------------------------------------ memcheck arm: uninitialised reads (ASan does not see those)

def memcheck_job(arg):
    import glob
    import re
    import subprocess
    from vlib.common import SYSCONF
    from vlib.drive import parse_log
    bld, exe, batch, idx, root = arg
    work = os.path.join(root, "m%03d" % idx)
    os.makedirs(os.path.join(work, "conf"), exist_ok=True)
    os.chmod(work, 0o777)
    B = type("B", (), {})()
    B.work = work
    s = Script()
    s.raw("nosinks")
    s.raw("nostate")
    for c in batch:
        vitro_script_with_dirs(c, B, s)
    with open(os.path.join(work, "script"), "w") as f:
        f.write(s.text())
    env = {"PATH": "/usr/bin:/bin", "LD_PRELOAD": os.path.join(HBIN, "libvrec.so"), "TZ": "UTC"}
    cmd = ["valgrind", "-q", "--error-exitcode=0", "--track-origins=yes", "--num-callers=12", "--child-silent-after-fork=no", "--log-file=" + os.path.join(work, "vg.%p"),
           exe, "--mount", "%s:%s" % (os.path.join(work, "conf"), SYSCONF), "--log", os.path.join(work, "ev.log"), "--script", os.path.join(work, "script"), "--work", work]
    try:
        subprocess.run(cmd, env=env, capture_output=True, timeout=1800, cwd=work)
    except subprocess.TimeoutExpired:
        return dict(inconclusive=len(batch))
    evs = parse_log(os.path.join(work, "ev.log"))
    pid_of = {e["tag"]: e["pid"] for e in evs if e["ev"] == "CHILD"}
    out = dict(cases=0, reports=[])
    for c in batch:
        pid = pid_of.get(c["id"])
        if pid is None:
            continue
        out["cases"] += 1
        p = os.path.join(work, "vg.%d" % pid)
        try:
            txt = open(p, errors="replace").read()
        except OSError:
            txt = ""
        # only errors whose stack passes through the library's sources
        for blk in re.split(r"\n==\d+== \n", txt):
            if ("uninitialised" in blk or "Invalid read" in blk or "Invalid write" in blk) and ("/src/src/" in blk or "snoopy_" in blk):
                m = re.search(r"(?:by|at) 0x[0-9A-F]+: (snoopy_\w+)", blk)
                kind = "uninitialised-value" if "uninitialised" in blk else "invalid-access"
                out["reports"].append((kind, m.group(1) if m else "?", {k: (v.decode("latin-1") if isinstance(v, bytes) else v) for k, v in c.items()}, blk[:3000]))
                break
    import shutil
    shutil.rmtree(work, ignore_errors=True)
    return out


def memcheck_arm(tr, F, tot):
    from vlib.common import mkwork, rmwork
    from vlib.drive import pmap
    bld = vbuild.build("plain")
    exe = vbuild.build_vitro(bld, asan=False)
    n = 480 if tr == "quick" else 8000
    cases = [c for c in make_vitro("mc" + tr, n * 2) if c["op"] in ("ds", "filter", "fmt", "chain", "sysfac", "syslvl", "bytelen") and c.get("size", 0) <= 70000][:n]
    for i, c in enumerate(cases):
        c["id"] = i + 1
    root = mkwork("c02m")
    jobs = [(bld, exe, cases[i:i + 30], i // 30, root) for i in range(0, len(cases), 30)]
    for o in pmap(memcheck_job, jobs, 16):
        tot["memcheck.cases"] = tot.get("memcheck.cases", 0) + o.get("cases", 0)
        tot["memcheck.inconclusive"] = tot.get("memcheck.inconclusive", 0) + o.get("inconclusive", 0)
        for kind, fn, case, blk in o.get("reports", []):
            F.violation("C02:memcheck:%s@%s" % (kind, fn), "valgrind memcheck: %s in %s (in vitro %s %s, state %s)" % (kind, fn, case.get("op"), case.get("name", ""), case.get("state")), dict(case=case, report=blk))
    rmwork(root)


# ------------------------------------------------------------------ coverage-guided arm (libFuzzer, clang build)

def fuzz_job(arg):
    import random
    import shutil
    import subprocess
    from vlib.common import SYSCONF, VERIF
    exe, idx, runs, seed, root = arg
    work = os.path.join(root, "f%02d" % idx)
    conf = os.path.join(work, "conf")
    corpus = os.path.join(work, "corpus")
    os.makedirs(conf, exist_ok=True)
    os.makedirs(corpus, exist_ok=True)
    for d in (work, conf, corpus):
        os.chmod(d, 0o777)
    rng = random.Random(seed)
    for i in range(150):
        data = ini_gen.gen_ini(rng, work)
        if rng.random() < 0.3:
            data = ini_gen.mutate(rng, data)
        with open(os.path.join(corpus, "seed%03d" % i), "wb") as f:
            f.write(bytes([rng.randrange(256) for _ in range(3)]) + data[:4000])
    env = {"PATH": "/usr/bin:/bin", "VFUZZ_CONF": conf, "VFUZZ_SYSCONF": SYSCONF, "VFUZZ_WORK": work,
           "ASAN_OPTIONS": "detect_leaks=0:abort_on_error=0:allocator_may_return_null=1", "UBSAN_OPTIONS": "print_stacktrace=1:halt_on_error=1"}
    try:
        r = subprocess.run([exe, "-runs=%d" % runs, "-seed=%d" % seed, "-max_len=4096", "-timeout=20", "-rss_limit_mb=4096", "-artifact_prefix=" + work + "/", "-print_final_stats=1", corpus],
                           env=env, capture_output=True, timeout=3600, cwd=work)
    except subprocess.TimeoutExpired:
        shutil.rmtree(work, ignore_errors=True)
        return dict(idx=idx, inconclusive=1)
    err = r.stderr.decode("latin-1")
    import re
    m = re.search(r"stat::number_of_executed_units:\s+(\d+)", err)
    execs = int(m.group(1)) if m else 0
    cov = re.findall(r"cov: (\d+)", err)
    out = dict(idx=idx, rc=r.returncode, execs=execs, cov=int(cov[-1]) if cov else 0)
    arts = [f for f in os.listdir(work) if f.startswith(("crash-", "timeout-", "oom-", "leak-"))]
    if r.returncode != 0:
        out["report"] = err[-6000:]
        if arts:
            with open(os.path.join(work, arts[0]), "rb") as f:
                out["artifact"] = f.read()[:5000].decode("latin-1")
            out["artifact_kind"] = arts[0].split("-")[0]
    shutil.rmtree(work, ignore_errors=True)
    return out


def fuzz_arm(tr, F, tot):
    import subprocess
    from vlib.common import VERIF, mkwork, rmwork
    fb = vbuild.build("fuzz")
    exe = os.path.join(fb.dir, "vfuzz")
    src = os.path.join(VERIF, "harness", "vfuzz.c")
    if not os.path.exists(exe) or os.stat(exe).st_mtime < os.stat(src).st_mtime:
        c = subprocess.run(["clang", "-O1", "-g", "-fno-omit-frame-pointer", "-fsanitize=fuzzer,address,undefined", "-fno-sanitize=object-size", "-fno-sanitize-recover=all",
                            "-o", exe, src, fb.archive, "-lpthread", "-ldl"], capture_output=True, text=True)
        if c.returncode != 0:
            raise Harness("cannot link the libFuzzer target: " + c.stderr[-800:])
    root = mkwork("c02f")
    os.chmod(root, 0o777)
    rng = rng_for(PROP, "fuzz" + tr)
    nproc, runs = (4, 15000) if tr == "quick" else (16, 150000)
    jobs = [(exe, i, runs, rng.randrange(1, 2**31), root) for i in range(nproc)]
    from vlib.drive import pmap
    for o in pmap(fuzz_job, jobs, nproc):
        tot["fuzz.execs"] = tot.get("fuzz.execs", 0) + o.get("execs", 0)
        tot["fuzz.max_cov"] = max(tot.get("fuzz.max_cov", 0), o.get("cov", 0))
        if o.get("inconclusive"):
            tot["fuzz.inconclusive"] = tot.get("fuzz.inconclusive", 0) + 1
            continue
        if o["rc"] != 0:
            rep = o.get("report", "")
            kind = o.get("artifact_kind", "crash")
            key = san_key(rep) if ("Sanitizer" in rep or "runtime error" in rep) else kind
            F.violation("C02:fuzz:%s" % key, "libFuzzer target (config bytes -> full logging action) failed: %s" % key, dict(report=rep, config_with_3_steering_bytes=o.get("artifact")))
    rmwork(root)
    tot["fuzz.builds"] = fb.treehash


def main():
    t0 = time.time()
    tr = tier()
    ensure_harness()
    F = Findings(PROP)
    tot = {}
    builds = {}
    nv, nt = (3000, 6000) if tr == "quick" else (100000, 200000)
    vivo = make_vivo(tr, nv)
    for variant, share in (("asan", 1.0), ("asan-nts", 0.34)):
        bld = vbuild.build(variant)
        builds[variant] = bld.treehash
        sub = vivo[:int(len(vivo) * share)]
        f, st = run_cases(PROP, bld, sub, vivo_script, vivo_check, batch_size=40, asan=True, allow_driver_death=True)
        merge_findings(F, f)
        for k, v in st.items():
            tot[variant + "." + k] = v
    bld = vbuild.build("asan")
    exe = vbuild.build_vitro(bld, asan=True)
    vitro = make_vitro(tr, nt)
    f, st = run_cases(PROP, bld, vitro, vitro_script_with_dirs, vitro_check, batch_size=50, asan=True, exe=exe,
                      preload=[os.path.join(HBIN, "libvrec.so")], allow_driver_death=True)
    merge_findings(F, f)
    for k, v in st.items():
        tot["vitro." + k] = v
    memcheck_arm(tr, F, tot)
    if (tot.get("memcheck.cases", 0) == 0) and F.n_unlisted() == 0:
        raise Harness("memcheck arm ran nothing: %s" % tot)
    try:
        fuzz_arm(tr, F, tot)
    except Harness as e:
        # the clang build of the tree can fail where the project's own gcc build does not (-Werror=format-security ...): that
        # must not hide what the gcc-built arms above have already found
        if F.n_unlisted() == 0:
            raise
        tot["fuzz.arm_unavailable"] = 1
        log("[C02] libFuzzer arm unavailable: %s" % str(e)[:200])
    if (tot.get("fuzz.execs", 0) == 0) and F.n_unlisted() == 0:
        raise Harness("libFuzzer arm executed nothing: %s" % tot)
    if (tot.get("asan.vivo_real", 0) == 0 or tot.get("vitro.vitro_ds", 0) == 0) and F.n_unlisted() == 0:
        raise Harness("monitor observed too little: %s" % tot)
    inconc = sum(v for k, v in tot.items() if k.endswith("inconclusive"))
    if (inconc > (len(vivo) + len(vitro)) // 100) and F.n_unlisted() == 0:
        raise Harness("too many inconclusive cases: %d" % inconc)
    rc = F.report()
    write_evidence(PROP, "exploration", tr, dict(
        evaluations=len(vivo) + int(len(vivo) * 0.34) + len(vitro),
        distinct_nontrivial=len({c["sub"] for c in vivo}) + len({repr(sorted((k, v) for k, v in c.items() if k != "id")) for c in vitro}),
        rule="in vivo: grammar-generated snoopy.ini (35%% byte-mutated) x env shape x argv/envp/path shape, asan and asan-nts builds; in vitro: registry name x argument x exact-size result buffer in %s x process state; distinct = distinct generated inputs" % SIZES,
        samples=[dict(kind="vivo", conf=short(vivo_conf(c, "/w"), 160), env=c["envk"], argv=c["ak"]) for c in vivo[:3]] +
                [dict(kind="vitro", **{k: (short(v, 40) if isinstance(v, bytes) else v) for k, v in c.items()}) for c in vitro[:4]],
        monitor_events=tot, sanitizer="gcc -fsanitize=address,undefined -fno-sanitize-recover=all, abort_on_error=1, one process per case",
        builds=builds, inconclusive=inconc, violation_keys=sorted(F.viol)),
        time.time() - t0, F.n_unlisted(),
        ["ASan red zones catch adjacent overflows only; result buffers are exact-size heap blocks to make one-byte overruns visible",
         "invalid pointers and allocation failure are outside the domain and never generated"])
    log("[C02] %s %.1fs" % (tot, time.time() - t0))
    return rc
