#!/usr/bin/env python3
"""Writes /verif/seeded/<id>/meta.json from the table below plus the measured results of tools/run_seeded.py
(/tmp/seeded-results.json produced by the batch run).  The table records, per seeded change, what it breaks and what it
needs in order to manifest; `missed_at_first` tells whether the checks had to be strengthened to catch it."""
import json
import os
import sys

V = os.path.dirname(os.path.dirname(os.path.abspath(__file__)))

CHANGES = {
 "C01": [
  dict(patch="patch.diff", demo="demo.sh", what="dlsym() result cached in one static shared by the execv and the execve wrapper: whichever flavour resolves first is reused for the other (execve reaches libc execv and drops envp, or execv reaches execve with a garbage envp)",
       needs="one process makes a failing exec call of one flavour and then calls the other flavour", missed_at_first=True,
       strengthened="C01 (and C04/C05/C07) now run consecutive cases in one process in groups of 1..8 instead of one fresh process per case"),
  dict(patch="patch2.diff", demo="demo2.sh", what="both wrappers retry the real call up to 3 times when it fails with ETXTBSY", needs="the real exec fails with errno 26", missed_at_first=False),
 ],
 "C02": [
  dict(patch="patch.diff", demo="demo.sh", what="cmdline data source: bound check dropped on the separator write: remaining-size wraps and ' \\0' is stored past the buffer",
       needs="%{cmdline}, joined command line longer than the buffer and at least one further argument after the one that crossed the limit", missed_at_first=False),
  dict(patch="patch2.diff", demo="demo2.sh", what="re-entrancy guard of the error handler removed (reads like a const-correctness clean-up): infinite recursion, stack overflow in the caller",
       needs="error_logging = yes together with an output that itself errors (devlog with a syslog_ident expanding past 255 bytes)", missed_at_first=False),
 ],
 "C03": [
  dict(patch="patch.diff", demo="demo.sh", what="socket output wraps send() in a retry loop on EINTR/EAGAIN that never gives up: the caller spins forever",
       needs="socket/devlog output whose receiver is alive but not reading with a full queue (or send failing persistently); one-shot faults do not show it", missed_at_first=False),
  dict(patch="patch2.diff", demo="demo2.sh", what="fflush(stdout) moved after the SIGPIPE mask is restored: the real write happens outside the guarded region",
       needs="output = stdout on a pipe whose reader is gone, default SIGPIPE disposition", missed_at_first=False),
 ],
 "C04": [
  dict(patch="patch.diff", demo="demo.sh", what="file output formats short lines into a 1024-byte stack buffer with an off-by-one fallback test: a message of exactly 1023 bytes is written as message+NUL instead of message+newline",
       needs="a message of exactly 1023 bytes on the file/devtty output", missed_at_first=True,
       strengthened="C04 got a systematic size sweep (every 2^k-1, 2^k, 2^k+1 up to 128 KiB plus stdio/page boundaries) per output; C17's traced sizes likewise"),
  dict(patch="patch2.diff", demo="demo2.sh", what="devlog output caches getpid() in a static: after a failed exec in the parent, a forked child's record carries the parent's pid",
       needs="devlog output, a process that logs a failing exec, then forks, and the child execs", missed_at_first=True,
       strengthened="C04 got an 'after-fork' scenario: priming call in the parent, nested fork, observed call in the child (vdrive learned nested fork blocks)"),
 ],
 "C05": [
  dict(patch="patch.diff", demo="demo.sh", what="data-source scratch buffer made static __thread and grow-only: its size (the per-source limit) becomes the largest ever requested on the thread, e.g. PATH_MAX-1 from the file output's path template",
       needs="file output, datasource_message_max_length below 4094, at least two logged execs by the same thread, a source output longer than the limit in the later one", missed_at_first=True,
       strengthened="C05 cases now share processes in groups (limits, formats change between calls of one process); C11 caught it from the start as carry-over"),
  dict(patch="patch2.diff", demo="demo2.sh", what="the reset of the scratch buffer hoisted out of the tag loop: %{noop} (which writes nothing) expands to the previous tag's output",
       needs="a %{noop} tag after another tag with non-empty output", missed_at_first=False),
 ],
 "C06": [
  dict(patch="patch.diff", demo="demo.sh", what="log message buffer kept per thread between calls with the terminating reset moved into the allocation branch: later records of the same thread contain all earlier records",
       needs="at least two exec calls by the same thread of one process", missed_at_first=False),
  dict(patch="patch2.diff", demo="demo2.sh", what="'\"%s\", ' lost in the cmdline snprintf: each argument is used as a format string",
       needs="an argument containing a % conversion (e.g. date +%s)", missed_at_first=True,
       strengthened="argv kinds with % conversions added to C06 and to the shared C01/C02 shapes"),
 ],
 "C07": [
  dict(patch="patch.diff", demo="demo.sh", what="unknown filter name ends the chain walk (break for continue): filters to its right are never consulted",
       needs="an unknown name followed by a known filter that drops", missed_at_first=False),
  dict(patch="patch2.diff", demo="demo2.sh", what="chain verdict cached in a function-local static once per process",
       needs="one process calls exec, then changes uid / stdin / the configured chain, then calls exec again", missed_at_first=True,
       strengthened="C07 cases with the same uid now share one process in groups, with the chain and stdin changing between calls"),
 ],
 "C08": [
  dict(patch="patch.diff", demo="demo.sh", what="early clamp before the k/m multiplication removed: the 64-bit product wraps for huge numbers and the result is the minimum",
       needs="a value of at least 2^43 with the m suffix (inside the 10^15 range of the property)", missed_at_first=False),
  dict(patch="patch2.diff", demo="demo2.sh", what="inih: the continuation-line state is no longer reset at a section header (line slid below an #if that is 0 in this build)",
       needs="an earlier key, then a section header, then an indented first entry in that section", missed_at_first=False),
 ],
 "C09": [
  dict(patch="patch.diff", demo="demo.sh", what="log message buffer made static (shared by all threads) and only reallocated when the limit grows",
       needs="two threads of one process formatting a message at the same time, one preempted between two data sources", missed_at_first=False),
  dict(patch="patch2.diff", demo="demo2.sh", what="strtok_r() replaced by strtok() in the filter chain walker: hidden process-global state",
       needs="a chain of at least two filters where a later one drops, two threads inside the chain walker with the right interleaving", missed_at_first=True,
       strengthened="C09 stress arm now runs multi-element filter chains (all-drop and all-pass) under 16..64 real threads: a dropped call that gets logged is a violation"),
 ],
 "C10": [
  dict(patch="patch.diff", demo="demo.sh", what="atfork handlers skip locking when the thread registry is empty - but tsrm_ctor takes the mutex before pushing its entry",
       needs="fork while another thread is inside snoopy_tsrm_ctor() holding the mutex with an empty registry (first lock window of a call)", missed_at_first=False),
  dict(patch="patch2.diff", demo="demo2.sh", what="parent atfork handler re-initialises the mutex instead of unlocking it: a thread already waiting for it is never woken",
       needs="a parent thread blocked on the mutex at the moment fork() returns in the parent", missed_at_first=False),
  dict(patch="patch3.diff", demo="demo3.sh", what="child atfork handler resets the once-control instead of re-initialising the mutex: fork-then-exec works, but a child that forks again blocks in its own fork()",
       needs="library already initialised, then a double fork", missed_at_first=False),
 ],
 "C11": [
  dict(patch="patch.diff", demo="demo.sh", what="dtor resets the scalar settings only if the config file parsed without error; a damaged file still applies its valid lines",
       needs="--disable-thread-safety build, an earlier call under a file with one damaged line that sets a scalar option, then a call under a file silent on that option", missed_at_first=True,
       strengthened="C11's configuration pool now contains damaged-but-partly-valid files (a syntax-error line inside an otherwise valid file)"),
  dict(patch="patch2.diff", demo="demo2.sh", what="inih parser locals (line, section, prev_name) made static: section and previous key survive from one parse to the next",
       needs="an earlier call that parsed a normal [snoopy] file, then a file that lost its header or starts with an indented line", missed_at_first=False),
 ],
 "C12": [
  dict(patch="patch.diff", demo="demo.sh", what="tid_kernel caches gettid() in a static __thread variable",
       needs="the same thread logs at least twice with a fork()/vfork() in between", missed_at_first=True,
       strengthened="C12 makes a priming call (all sources) before the forks / uid change of half of the states, and the observed calls then run in a forked descendant"),
  dict(patch="patch2.diff", demo="demo2.sh", what="cwd taken from get_current_dir_name(): returns $PWD verbatim when it names the same inode",
       needs="PWD set to a non-canonical spelling of the cwd (here caught through the over-long cwd: it no longer fails where getcwd(PATH_MAX+1) did)", missed_at_first=False),
 ],
 "C13": [
  dict(patch="patch.diff", demo="demo.sh", what="nested #ifdefs of snoopy_threads collapsed into '#if defined() && defined()' - with '||' in the names table only",
       needs="a build with thread safety off xor snoopy_threads off: 38 names against 37 functions, everything after it shifts", missed_at_first=False,
       note="first run exited 2 (probe output '(nil)' not parsed, e2e crash raised a harness error); both turned into violations"),
  dict(patch="patch2.diff", demo="demo2.sh", what="generic registry remembers the last successful lookup by name only, across the three registries",
       needs="the name noop looked up in one registry and then immediately in another (filter chain ending in noop, tag-less format, output noop)", missed_at_first=True,
       strengthened="C13 got a cross-registry arm (all orders of filter/output/data-source lookups of the shared name through the real lookup-by-name functions, sinks checked); C04 also generates tag-less formats with noop chains and the noop output"),
 ],
 "C14": [
  dict(patch="patch.diff", demo="demo.sh", what="only_uid caches getuid() in a static", needs="filter evaluated under uid A, then a change of real uid, then a second exec in the same process", missed_at_first=True,
       strengthened="C14 makes priming calls with the same filters as uid 0 before switching to the uid under test"),
  dict(patch="patch2.diff", demo="demo2.sh", what="exclude_uid compares text with strncmp(entry, uid, strlen(entry)): an entry that is a decimal prefix of the uid matches",
       needs="a list entry that is a proper decimal prefix of the caller's uid", missed_at_first=False),
 ],
 "C15": [
  dict(patch="patch.diff", demo="demo.sh", what="exclude_spawns_of parses its name list once per process into statics and keeps it",
       needs="two evaluations with different arguments in one process (two instances in one chain, or a config change between two calls)", missed_at_first=True,
       strengthened="C15 makes a priming call with a different list in the same leaf process and has a two-instances mode"),
  dict(patch="patch2.diff", demo="demo2.sh", what="ancestor walk stops below PID 1 (while ppid > 1): PID 1's name is never compared",
       needs="the only listed ancestor is PID 1 itself", missed_at_first=True, strengthened="C15 got a pid1 mode (list = name of the real init process read from /proc/1/stat)"),
 ],
 "C16": [
  dict(patch="patch.diff", demo="demo.sh", what="free of the previous output_arg moved next to the strdup: branches without argument / with unknown output leak it",
       needs="output given more than once, an earlier line with an argument and a later one without (or with an unknown name)", missed_at_first=False),
  dict(patch="patch2.diff", demo="demo2.sh", what="close(fd) moved after the write-error return in the file output: descriptor stays open (and is inherited by the exec'd program)",
       needs="open() of the log file succeeds and the following write() fails (file:/dev/full)", missed_at_first=False),
 ],
 "C17": [
  dict(patch="patch.diff", demo="demo.sh", what="records of 4096 bytes or more are written from the caller's buffer and the newline in a second write()",
       needs="a record of at least 4096 bytes and another writer appending in between", missed_at_first=False),
  dict(patch="patch2.diff", demo="demo2.sh", what="file-creation path (ENOENT fallback) opens without O_APPEND",
       needs="the log file is absent (first record, after logrotate) and a second writer logs inside the creator's open-to-write window", missed_at_first=True,
       strengthened="C17 traces and stress rounds now also start from an absent log file"),
 ],
 "C18": [
  dict(patch="patch.diff", demo="demo.sh", what="'final newline missing?' test uses !isspace(): a last byte that is a space, tab or CR counts as terminated and the path is glued onto the last line",
       needs="an existing file without final newline whose last byte is a space, tab or CR", missed_at_first=False),
  dict(patch="patch2.diff", demo="demo2.sh", what="backward scan for the line start bounded by the search cursor again (the defect repaired by fix 50a12e3 re-introduced as an 'optimisation')",
       needs="a comment line mentioning libsnoopy.so at least twice", missed_at_first=False),
 ],
 "C19": [
  dict(patch="patch.diff", demo="demo.sh", what="shared-line handling wrapped into 'if (copyLength > 0)': when the entry's line is the last one the whole line is dropped including foreign entries",
       needs="the entry shares its line with another entry and that line is the last line of the file", missed_at_first=False),
  dict(patch="patch2.diff", demo="demo2.sh", what="findEntry replaced by the generic findLineStartingWith: the end-of-entry condition is lost, a foreign entry starting with our path is cut",
       needs="own entry absent and a foreign line beginning with our full path followed by more characters (.bak, .0.0.0)", missed_at_first=False),
 ],
 "C20": [
  dict(patch="patch.diff", demo="demo.sh", what="wrong variable in one of three cleanup blocks: unlink(filePath) instead of unlink(tmpFilePath) when writing the new content fails",
       needs="the write of the new content fails with ENOSPC / EIO / EDQUOT", missed_at_first=False),
  dict(patch="patch2.diff", demo="demo2.sh", what="backup feature renames the live file aside before renaming the temp file in: a moment without preload file",
       needs="the process is killed exactly between the two renames (2 of about 110 syscall boundaries)", missed_at_first=False),
 ],
}


def main():
    res = json.load(open(sys.argv[1] if len(sys.argv) > 1 else "/tmp/seeded-results.json"))
    for prop, items in CHANGES.items():
        d = os.path.join(V, "seeded", prop)
        os.makedirs(d, exist_ok=True)
        meta = dict(property=prop, changes=[])
        for it in items:
            r = res.get("%s/%s" % (prop, it["patch"]), {})
            caught = {c: v["keys"][:6] for c, v in r.items() if v["exit"] == 1}
            meta["changes"].append(dict(it, breaks_property=prop,
                                        confirmed=dict(worktree="scratch git worktree of /repo HEAD under /tmp, removed afterwards (tools/verify_seeded.sh)",
                                                       suite="172/172 stable tests pass with the change applied",
                                                       demonstration="fails on the patched build, passes on the unpatched build" +
                                                                     (" (on --disable-thread-safety builds: the change cannot show in a thread-safe build)" if (prop, it["patch"]) == ("C11", "patch.diff") else "")),
                                        ran="git -C /repo apply <patch>; python3 verif.py check <ids> (quick); git -C /repo checkout -- .   (tools/run_seeded.py)",
                                        caught_by=caught, not_caught_by=[c for c, v in r.items() if v["exit"] == 0]))
        with open(os.path.join(d, "meta.json"), "w") as f:
            json.dump(meta, f, indent=1)
    print("meta written for", len(CHANGES), "properties")


if __name__ == "__main__":
    main()
