"""C01 - exec calls pass through unchanged, exactly once, after logging.

Recording execv/execve (libvrec.so) sits where RTLD_NEXT resolves to; the driver logs BEGIN / REAL / END per call.
Oracle per call: exactly one REAL; same function; the three pointers identical; deep hashes of path/argv/envp equal
before / at real exec / after; (execv) environ pointer+content unchanged at the real call; ret/errno delivered as
scripted; nothing reaches any sink after the real call started; Snoopy's mutex depth 0 and thread registry empty at
the real call; for real successful execs the new image's argv/envp are what the caller passed, and natural failures
give the same ret/errno as a run without the library.
"""
import os
import time

from vlib import build as vbuild
from vlib.common import (Findings, Harness, HBIN, hx, log, mkwork, rmwork, rng_for, short, tier, write_evidence)
from vlib.drive import Script, ensure_harness, expand_vec, pmap, run_vdrive, sink_bytes

PROP = "C01"
INT_MIN = -2147483648


def configs(work):
    logf = os.path.join(work, "log")
    sock = os.path.join(work, "sock")
    fmt = 'message_format = "%{cmdline}|%{filename}|%{env:HOME}"\n'
    c = {
        "absent": None,
        "empty": b"",
        "section-only": b"[snoopy]\n",
        "file": ("[snoopy]\n%soutput = file:%s\n" % (fmt, logf)).encode(),
        "devlog": ("[snoopy]\n%soutput = devlog\n" % fmt).encode(),
        "devnull": ("[snoopy]\n%soutput = devnull\n" % fmt).encode(),
        "devtty": ("[snoopy]\n%soutput = devtty\n" % fmt).encode(),
        "socket": ("[snoopy]\n%soutput = socket:%s\n" % (fmt, sock)).encode(),
        "stderr": ("[snoopy]\n%soutput = stderr\n" % fmt).encode(),
        "stdout": ("[snoopy]\n%soutput = stdout\n" % fmt).encode(),
        "noop": ("[snoopy]\n%soutput = noop\n" % fmt).encode(),
        "unknown-output": ("[snoopy]\n%soutput = nosuchoutput:arg\n" % fmt).encode(),
        "drop-chain": ("[snoopy]\n%soutput = file:%s\nfilter_chain = exclude_uid:0\n" % (fmt, logf)).encode(),
        "pass-chain": ("[snoopy]\n%soutput = file:%s\nfilter_chain = only_uid:0;only_root\n" % (fmt, logf)).encode(),
        "garbage": b"\xef\xbb\xbf[snoopy\nmessage_format\n= = =\n[other]\noutput = file:/nonexistent/x\n\x01\x02\xff\n",
        "all-sources": ("[snoopy]\nmessage_format = \"%{datetime} %{hostname} %{login} %{tty} %{uid} %{username} %{pid} %{ppid} "
                        "%{cwd} %{rpname} %{snoopy_threads} %{tid} %{env_all} %{cmdline}\"\noutput = file:" + logf + "\n").encode(),
        "error-logging": ("[snoopy]\nerror_logging = yes\nmessage_format = \"%{nosuch} %{cmdline\"\noutput = file:" + logf + "\n").encode(),
    }
    return c


def gen_vec(rng, kind, tok):
    t = tok.encode()
    if kind == "null":
        return None
    if kind == "empty":
        return []
    if kind == "emptystr":
        return [b""]
    if kind == "a0null":
        return [None, t + b"-unreachable", b"x"]
    if kind == "one":
        return [t]
    if kind == "few":
        return [t] + [bytes([rng.randrange(1, 256) for _ in range(rng.randrange(0, 12))]) for _ in range(rng.randrange(1, 6))]
    if kind == "allbytes":
        return [t, bytes(range(1, 256))]
    if kind == "many":
        return [t, ("times", rng.choice([100, 1000, 5000]), t + b"-arg")]
    if kind == "s4095":
        return [t, ("rep", 4095, b"a")]
    if kind == "s4096":
        return [t, ("rep", 4096, b"b")]
    if kind == "s64k":
        return [t, ("rep", 65536, b"c")]
    if kind == "s1m":
        return [t, ("rep", 1 << 20, b"d")]
    if kind == "spaces":
        return [t, b" ", b"  x  ", b"\t\n", b"a b"]
    if kind == "percent":
        return [t, b"+%s", b"100%%", b"%d %x %c %5$s", b"%", t + b"%10s|%n"]
    raise ValueError(kind)


def gen_env(rng, kind, tok):
    t = tok.encode()
    if kind in ("null", "empty"):
        return None if kind == "null" else []
    if kind == "one":
        return [b"TOK=" + t]
    if kind == "few":
        return [b"HOME=/h/" + t, b"PATH=/bin", b"=weird", b"NOEQ", b"X=" + bytes(range(1, 256))]
    if kind == "many":
        return [b"HOME=/h/" + t, ("times", rng.choice([100, 2000]), b"V=" + t)]
    if kind == "big":
        return [b"HOME=/h/" + t, ("rep", 131072, b"E")]
    if kind == "a0null":
        return [None, b"HOME=unreachable"]
    raise ValueError(kind)


ARGV_KINDS = ["null", "empty", "emptystr", "a0null", "one", "few", "allbytes", "spaces", "percent", "many", "s4095", "s4096"]
ARGV_BIG = ["s64k", "s1m", "many"]
ENV_KINDS = ["null", "empty", "one", "few", "a0null", "many"]
PATH_KINDS = ["tok", "empty", "relative", "long", "8bit"]


def gen_path(kind, tok):
    t = tok.encode()
    if kind == "tok":
        return b"/bin/" + t
    if kind == "empty":
        return b""
    if kind == "relative":
        return b"./rel/" + t
    if kind == "long":
        return ("rep", 300, b"/" + t[:14].ljust(14, b"x"))  # 4500 bytes
    if kind == "8bit":
        return b"/\xff\xfe\x80" + t + b"\x01\x7f"
    raise ValueError(kind)


def make_cases(tr):
    rng = rng_for(PROP, tr)
    cfgnames = list(configs("/x").keys())
    cases = []
    cid = [0]

    def add(cfg, fn, pk, ak, ek, ret, err, real=False):
        cid[0] += 1
        tok = "tok%06d" % cid[0]
        cases.append(dict(id=cid[0], tok=tok, cfg=cfg, fn=fn, pk=pk, ak=ak, ek=ek, ret=ret, err=err, real=real,
                          sub=rng.randrange(1 << 30)))

    per_cfg = 300 if tr == "quick" else 3000
    for cfg in cfgnames:
        for _ in range(per_cfg):
            fn = rng.choice(["execv", "execve"])
            ret = rng.choice([-1, -1, -1, 0, 7, INT_MIN])
            err = rng.randrange(1, 134)
            add(cfg, fn, rng.choice(PATH_KINDS), rng.choice(ARGV_KINDS), rng.choice(ENV_KINDS), ret, err)
    # every errno, rotating (quick) / under every config (thorough)
    for e in range(1, 134):
        for cfg in (cfgnames if tr == "thorough" else [cfgnames[e % len(cfgnames)]]):
            add(cfg, "execve" if e % 2 else "execv", "tok", "few", "few", -1, e)
    # huge shapes
    for cfg in (cfgnames if tr == "thorough" else ["file", "devlog", "absent", "stdout", "drop-chain"]):
        for ak in ARGV_BIG:
            add(cfg, "execve", "tok", ak, "big", -1, 7)
            add(cfg, "execv", "tok", ak, "null", -1, 7)
    # real execs: success through a symlink to vtrue, and natural failures
    nreal = 12 if tr == "quick" else 120
    for cfg in cfgnames:
        for i in range(nreal // 4 if tr == "quick" else nreal // 6):
            add(cfg, rng.choice(["execv", "execve"]), "vt", rng.choice(["one", "few", "spaces", "null", "empty", "allbytes"]),
                rng.choice(["one", "few", "null", "empty"]), 0, 0, real=True)
        add(cfg, "execve", "tok", "few", "few", 0, 0, real=True)      # ENOENT naturally
        add(cfg, "execv", "long", "one", "null", 0, 0, real=True)     # ENAMETOOLONG naturally
        add(cfg, "execve", "empty", "one", "one", 0, 0, real=True)    # ENOENT for ""
    return cases


def case_script(c, work, cfgs, with_conf=True):
    rng = __import__("random").Random(c["sub"])
    s = Script()
    tok = c["tok"]
    if c["pk"] == "vt":
        path = os.path.join(work, "vt-" + tok).encode()
        try:
            os.symlink(os.path.join(HBIN, "vtrue"), path)
        except FileExistsError:
            pass
    else:
        path = gen_path(c["pk"], tok)
    argv = gen_vec(rng, c["ak"], tok)
    envp = gen_env(rng, c["ek"], tok)
    s.fork(c["id"])
    if with_conf:
        conf = cfgs[c["cfg"]]
        if conf is None:
            s.confrm()
        else:
            s.conf(conf)
    if c["cfg"] == "devtty":
        s.raw("ctty")
    s.raw("envset " + Script.vec([b"HOME=/root/" + tok.encode(), b"LOGNAME=vt", b"PATH=/bin"]))
    s.call(c["id"], c["fn"], path, argv, envp, c["ret"], c["err"], c["real"])
    s.endfork()
    return s, path, argv, envp


def check_call(c, evs, path, argv, envp, nolib_end, F, stats):
    """evs: events of this call id (+CHILD, VTRUE)."""
    cid = c["id"]
    desc = "cfg=%s fn=%s path=%s argv=%s envp=%s outcome=%s" % (
        c["cfg"], c["fn"], c["pk"], c["ak"], c["ek"], "real" if c["real"] else "%d/%d" % (c["ret"], c["err"]))
    wit = dict(case=c)
    b = [e for e in evs if e["ev"] == "BEGIN"]
    r = [e for e in evs if e["ev"] == "REAL"]
    en = [e for e in evs if e["ev"] == "END"]
    ch = [e for e in evs if e["ev"] == "CHILD"]
    vt = [e for e in evs if e["ev"] == "VTRUE"]
    if not b:
        raise Harness("no BEGIN event for case %d" % cid)
    b = b[0]
    if ch and ch[0]["signal"]:
        F.violation("C01:caller-killed:sig%d:cfg=%s" % (ch[0]["signal"], c["cfg"]),
                    "caller died with signal %d inside the wrapped call (%s)" % (ch[0]["signal"], desc), wit)
        return
    if len(r) != 1:
        F.violation("C01:real-exec-count=%d" % len(r), "real exec reached %d times (%s)" % (len(r), desc), wit)
        return
    r = r[0]
    stats["real_events"] += 1
    if r["fn"] != c["fn"]:
        F.violation("C01:wrong-function", "%s was forwarded to %s (%s)" % (c["fn"], r["fn"], desc), wit)
    for k in ("same_path", "same_argv") + (("same_envp",) if c["fn"] == "execve" else ()):
        if not r.get(k):
            F.violation("C01:pointer-changed:" + k, "%s: the real function got a different pointer (%s)" % (k, desc), wit)
    for k in ("h_path", "h_argv", "h_envp"):
        if r[k] != b[k]:
            F.violation("C01:data-changed-at-real:" + k, "%s differs at the real call (%s)" % (k, desc), wit)
    if c["fn"] == "execv":
        if r.get("environ_ptr") != b.get("environ_ptr") or r.get("environ_hash") != b.get("environ_hash"):
            F.violation("C01:environ-changed", "environ differs at the real execv (%s)" % desc, wit)
    if "mtx_depth" in r:
        stats["mtx_seen"] += 1
        if r["mtx_depth"] != 0:
            F.violation("C01:lock-held-at-real-exec", "Snoopy mutex depth %d when the real exec was entered (%s)" % (r["mtx_depth"], desc), wit)
    if "repo_count" in r:
        stats["repo_seen"] += 1
        if r["repo_count"] != 0:
            F.violation("C01:thread-registered-at-real-exec", "thread registry holds %d entries at the real exec: logging work not finished (%s)" % (r["repo_count"], desc), wit)
    if c["real"] and vt:
        stats["real_success"] += 1
        v = vt[0]
        exp_argv = expand_vec(argv)
        if exp_argv is None or len(exp_argv) == 0 or exp_argv[0] is None:
            exp_argv = [b""]          # kernel substitutes an empty argv[0]
        if None in exp_argv:
            exp_argv = exp_argv[:exp_argv.index(None)]
        got_argv = [bytes.fromhex(x) for x in v["argv"]]
        if got_argv != exp_argv:
            F.violation("C01:new-image-argv", "new image saw argv %r, caller passed %r (%s)" % (got_argv[:4], exp_argv[:4], desc), wit)
        if c["fn"] == "execve":
            exp_env = expand_vec(envp) or []
            if None in exp_env:
                exp_env = exp_env[:exp_env.index(None)]
        else:
            exp_env = [b"HOME=/root/" + c["tok"].encode(), b"LOGNAME=vt", b"PATH=/bin"]
        got_env = [bytes.fromhex(x) for x in v["envp"]]
        if got_env != exp_env:
            F.violation("C01:new-image-envp", "new image saw envp %r, expected %r (%s)" % (got_env[:4], exp_env[:4], desc), wit)
        return
    if not en:
        F.violation("C01:no-return", "call neither returned nor exec'd (%s; child=%s)" % (desc, ch[:1]), wit)
        return
    en = en[0]
    stats["returns"] += 1
    if c["real"]:
        if nolib_end is None:
            raise Harness("no reference run for natural failure case %d" % cid)
        if (en["ret"], en["errno"]) != (nolib_end["ret"], nolib_end["errno"]):
            F.violation("C01:natural-result-changed", "with the library ret/errno=%d/%d, without %d/%d (%s)" % (
                en["ret"], en["errno"], nolib_end["ret"], nolib_end["errno"], desc), wit)
        stats["natural_failures"] += 1
    else:
        if en["ret"] != c["ret"]:
            F.violation("C01:return-value-changed", "real function returned %d, caller got %d (%s)" % (c["ret"], en["ret"], desc), wit)
        if en["errno"] != c["err"]:
            F.violation("C01:errno-changed", "real function set errno %d, caller saw %d (%s)" % (c["err"], en["errno"], desc), wit)
    for k in ("h_path", "h_argv", "h_envp"):
        if en[k] != b[k]:
            F.violation("C01:data-changed-after:" + k, "%s differs after return (%s)" % (k, desc), wit)
    late = {k: v for k, v in en.get("sinks", {}).items() if v not in ("", [], 0)}
    if late:
        F.violation("C01:logged-after-real-exec", "bytes reached sinks %s after the real exec was entered (%s)" % (list(late), desc), wit)
    # sinks at REAL gained something? (only statistics; exactness is C04's job)
    if any(v not in ("", [], 0) for v in r.get("sinks", {}).values()):
        stats["logged_before_real"] += 1


def script_fn(c, B, s):
    if not hasattr(B, "cfgs"):
        B.cfgs = configs(B.work)
    solo = c["cfg"] == "devtty" or c["real"]            # a controlling tty / a really replaced image cannot share a process
    B.begin_case(s, c, solo=solo)
    cs, path, argv, envp = case_script(c, B.work, B.cfgs)
    s.lines += [l for l in cs.lines if not l.startswith("fork ") and l != "endfork"]
    B.end_case(s, c)


def ref_script_fn(c, B, s):
    if not hasattr(B, "cfgs"):
        B.cfgs = configs(B.work)
    cs, _, _, _ = case_script(c, B.work, B.cfgs, with_conf=False)
    s.lines += cs.lines


def ref_check_fn(c, evs, B):
    en = [e for e in evs if e["ev"] == "END"]
    B.st.setdefault("_ref", []).append((c["id"], en[0]["ret"], en[0]["errno"]) if en else (c["id"], None, None))


_REF = {}


def check_fn(c, evs, B):
    if not hasattr(B, "cfgs"):
        B.cfgs = configs(B.work)
    import random
    rng = random.Random(c["sub"])
    tok = c["tok"]
    path = os.path.join(B.work, "vt-" + tok).encode() if c["pk"] == "vt" else gen_path(c["pk"], tok)
    argv = gen_vec(rng, c["ak"], tok)
    envp = gen_env(rng, c["ek"], tok)
    stats = {}
    for k in ("real_events", "mtx_seen", "repo_seen", "real_success", "returns", "natural_failures", "logged_before_real"):
        stats[k] = 0
    ref = _REF.get(c["id"])
    check_call(c, evs, path, argv, envp, None if ref is None else dict(ret=ref[0], errno=ref[1]), B.F, stats)
    for k, v in stats.items():
        B.count(k, v)


def main():
    from vlib.batch import run_cases
    t0 = time.time()
    tr = tier()
    ensure_harness()
    bld = vbuild.build("plain")
    cases = make_cases(tr)
    # reference results of natural failures: the same calls with only the recorder preloaded (no Snoopy)
    nat = [c for c in cases if c["real"] and c["pk"] != "vt"]
    _, rt = run_cases(PROP, bld, nat, ref_script_fn, ref_check_fn, batch_size=50, preload=[os.path.join(HBIN, "libvrec.so")], mtx=False)
    for cid, r, e in rt.get("_ref", []):
        if r is not None:
            _REF[cid] = (r, e)
    F, tot = run_cases(PROP, bld, cases, script_fn, check_fn, batch_size=50)
    n = len(cases)
    if (tot.get("real_events", 0) == 0 or tot.get("mtx_seen", 0) == 0) and F.n_unlisted() == 0:
        raise Harness("monitor observed no REAL events / no mutex samples")
    inconc = tot.get("inconclusive", 0) + tot.get("inconclusive_not_run", 0)
    if (inconc > n // 100) and F.n_unlisted() == 0:
        raise Harness("too many inconclusive cases: %d" % inconc)
    distinct = len({(c["cfg"], c["fn"], c["pk"], c["ak"], c["ek"], c["ret"], c["real"]) for c in cases})
    rc = F.report()
    samples = [dict(cfg=c["cfg"], fn=c["fn"], path=c["pk"], argv=c["ak"], envp=c["ek"],
                    outcome="real" if c["real"] else [c["ret"], c["err"]]) for c in cases[:3] + cases[-3:]]
    write_evidence(PROP, "exploration", tr, dict(
        evaluations=n, distinct_nontrivial=distinct,
        rule="one wrapped call per case; consecutive cases share one process in groups of 1..8 (so execv/execve, configurations and outcomes alternate inside one process); distinct = distinct (config, function, path shape, argv shape, envp shape, return value, real/scripted) tuples (errno not counted); "
             "shapes/configs/outcomes enumerated in checks/c01.py, combined at random from VERIF_SEED plus every errno 1..133",
        samples=samples, monitor_events=tot, configs=sorted(configs("/x").keys()),
        build=dict(variant="plain", treehash=bld.treehash), inconclusive=inconc,
        violation_keys=sorted(F.viol.keys())),
        time.time() - t0, F.n_unlisted(),
        ["libvrec.so is the next execv/execve definition after libsnoopy.so in symbol order",
         "pointer identity and FNV-1a hashes computed by the driver are sound witnesses of 'untouched'"])
    log("[C01] %d calls, %s, %.1fs" % (n, tot, time.time() - t0))
    return rc
