/*
 * libvheap.so - interposed allocator bookkeeping (plain builds only; never combined with ASan).
 * Keeps the set of live blocks in a static open-addressing table (the monitor itself never allocates), each with
 * size, sequence number and a short backtrace.  A block is attributed to Snoopy when any of its first frames lies
 * inside libsnoopy.so's mapping.  vheap_mark() remembers the current sequence number; vheap_snapshot() prints the
 * totals and the Snoopy-attributed blocks allocated after the mark that are still live.
 */
#define _GNU_SOURCE
#include <dlfcn.h>
#include <execinfo.h>
#include <link.h>
#include <stdint.h>
#include <stdio.h>
#include <string.h>
#include <unistd.h>

#define NSLOT (1u << 17)
#define NFR 10
struct slot {
    void *p;
    size_t sz;
    unsigned long seq;
    void *fr[NFR];
    int nfr;
    int snoopy;
};
static struct slot tab[NSLOT];
#define TOMB ((void *) 1)
static volatile int lk;
static unsigned long seqno, markseq;
static unsigned long live_n, live_b;
static uintptr_t lo, hi, base;
static int ready;
static __thread int inside;
static __thread int noattr; /* set while the recorder callback (driver code below Snoopy's frame) runs */

static void *(*r_malloc)(size_t);
static void *(*r_calloc)(size_t, size_t);
static void *(*r_realloc)(void *, size_t);
static void (*r_free)(void *);
static char boot[65536];
static size_t boot_off;

static void lock(void) {
    while (__sync_lock_test_and_set(&lk, 1)) {}
}
static void unlock(void) { __sync_lock_release(&lk); }

static int cb(struct dl_phdr_info *i, size_t sz, void *d) {
    (void) sz;
    (void) d;
    if (i->dlpi_name && strstr(i->dlpi_name, "libsnoopy.so")) {
        base = i->dlpi_addr;
        for (int k = 0; k < i->dlpi_phnum; k++)
            if (i->dlpi_phdr[k].p_type == PT_LOAD) {
                uintptr_t a = i->dlpi_addr + i->dlpi_phdr[k].p_vaddr, b = a + i->dlpi_phdr[k].p_memsz;
                if (!lo || a < lo) lo = a;
                if (b > hi) hi = b;
            }
    }
    return 0;
}

static void init(void) {
    static int initing;
    if (ready || initing) return;
    initing = 1;
    r_malloc = dlsym(RTLD_NEXT, "malloc");
    r_calloc = dlsym(RTLD_NEXT, "calloc");
    r_realloc = dlsym(RTLD_NEXT, "realloc");
    r_free = dlsym(RTLD_NEXT, "free");
    inside = 1;
    void *tmp[4];
    backtrace(tmp, 4); /* force libgcc load now */
    dl_iterate_phdr(cb, NULL);
    inside = 0;
    ready = 1;
}

static unsigned hashp(void *p) { return (unsigned) (((uintptr_t) p >> 4) * 2654435761u) & (NSLOT - 1); }

static void track(void *p, size_t sz) {
    if (!p || inside) return;
    struct slot s;
    memset(&s, 0, sizeof s);
    inside = 1;
    s.nfr = backtrace(s.fr, NFR);
    inside = 0;
    if (!lo) dl_iterate_phdr(cb, NULL);
    for (int i = 0; i < s.nfr && !noattr; i++)
        if ((uintptr_t) s.fr[i] >= lo && (uintptr_t) s.fr[i] < hi) s.snoopy = 1;
    s.p = p;
    s.sz = sz;
    lock();
    s.seq = ++seqno;
    unsigned h = hashp(p);
    for (unsigned k = 0; k < NSLOT; k++) {
        struct slot *t = &tab[(h + k) & (NSLOT - 1)];
        if (t->p == NULL || t->p == TOMB) {
            *t = s;
            live_n++;
            live_b += sz;
            break;
        }
    }
    unlock();
}
static void *bad_bt[4][NFR];
static int bad_nfr[4];
static unsigned long bad_frees;      /* free() issued by libsnoopy.so itself on a block that is not live: double / invalid free */
static int untrack(void *p) {
    int found = 0;
    if (!p || inside) return 1;
    lock();
    unsigned h = hashp(p);
    for (unsigned k = 0; k < NSLOT; k++) {
        struct slot *t = &tab[(h + k) & (NSLOT - 1)];
        if (t->p == NULL) break;
        if (t->p == p) {
            t->p = TOMB;
            live_n--;
            live_b -= t->sz;
            found = 1;
            break;
        }
    }
    unlock();
    return found;
}

static int in_boot(void *p) { return (char *) p >= boot && (char *) p < boot + sizeof boot; }

__attribute__((visibility("default"))) void *malloc(size_t n) {
    if (!ready) {
        init();
        if (!r_malloc) {
            void *p = boot + boot_off;
            boot_off += (n + 15) & ~15ul;
            return p;
        }
    }
    void *p = r_malloc(n);
    track(p, n);
    return p;
}
__attribute__((visibility("default"))) void *calloc(size_t a, size_t b) {
    if (!ready) {
        init();
        if (!r_calloc) {
            void *p = boot + boot_off;
            boot_off += (a * b + 15) & ~15ul;
            return p;
        }
    }
    void *p = r_calloc(a, b);
    track(p, a * b);
    return p;
}
__attribute__((visibility("default"))) void *realloc(void *o, size_t n) {
    if (!ready) init();
    if (in_boot(o)) {
        void *p = r_malloc(n);
        if (p) memcpy(p, o, n);
        track(p, n);
        return p;
    }
    untrack(o);
    void *p = r_realloc(o, n);
    if (p) track(p, n);
    else if (n) track(o, 0);
    return p;
}
/* set by the controlled scheduler: called right after a free() issued directly by libsnoopy.so has returned (the block is
   gone, whatever pointed to it has not been updated yet - an instant at which another thread may fork) */
__attribute__((visibility("default"))) void (*vheap_after_snoopy_free)(void);

__attribute__((visibility("default"))) void free(void *p) {
    void *ra = __builtin_return_address(0);
    if (!p || in_boot(p)) return;
    if (!ready) init();
    int from_snoopy = (uintptr_t) ra >= lo && (uintptr_t) ra < hi;
    if (!untrack(p) && from_snoopy) {
        /* the block is not live: handing it to the allocator again would corrupt the heap (glibc only notices some of
           these); count it and leave it alone */
        unsigned long n = __sync_fetch_and_add(&bad_frees, 1);
        if (n < 4) {
            inside = 1;
            bad_nfr[n] = backtrace(bad_bt[n], NFR);
            inside = 0;
        }
        return;
    }
    r_free(p);
    if (vheap_after_snoopy_free && (uintptr_t) ra >= lo && (uintptr_t) ra < hi) vheap_after_snoopy_free();
}

__attribute__((visibility("default"))) void vheap_noattr(int on) { noattr = on; }

__attribute__((visibility("default"))) void vheap_mark(void) {
    lock();
    markseq = seqno;
    unlock();
}

__attribute__((visibility("default"))) int vheap_snapshot(char *buf, size_t cap) {
    size_t off = 0;
    int nrep = 0;
    unsigned long sn = 0, sb = 0, on = 0, sl = 0, slb = 0;
    lock();
    off += snprintf(buf + off, cap - off, "{\"live\":%lu,\"bytes\":%lu,\"blocks\":[", live_n, live_b);
    for (unsigned i = 0; i < NSLOT; i++) {
        struct slot *t = &tab[i];
        if (t->p == NULL || t->p == TOMB) continue;
        if (t->snoopy) {
            sl++;
            slb += t->sz;
        }
        if (t->seq <= markseq) continue;
        if (!t->snoopy) {
            on++;
            continue;
        }
        sn++;
        sb += t->sz;
        if (nrep < 24 && off + 400 < cap) {
            off += snprintf(buf + off, cap - off, "%s{\"sz\":%zu,\"bt\":[", nrep ? "," : "", t->sz);
            for (int k = 0; k < t->nfr; k++) {
                uintptr_t a = (uintptr_t) t->fr[k];
                if (a >= lo && a < hi) off += snprintf(buf + off, cap - off, "%s\"s+0x%lx\"", k ? "," : "", (unsigned long) (a - base));
                else off += snprintf(buf + off, cap - off, "%s\"0x%lx\"", k ? "," : "", (unsigned long) a);
            }
            off += snprintf(buf + off, cap - off, "]}");
            nrep++;
        }
    }
    off += snprintf(buf + off, cap - off, "],\"since_mark_snoopy\":%lu,\"since_mark_snoopy_bytes\":%lu,\"since_mark_other\":%lu,\"snoopy_live\":%lu,\"snoopy_live_bytes\":%lu,\"snoopy_bad_frees\":%lu,\"bad_free_bt\":[", sn, sb, on, sl, slb, bad_frees);
    for (unsigned long b = 0; b < bad_frees && b < 4; b++) {
        off += snprintf(buf + off, cap - off, "%s[", b ? "," : "");
        for (int k = 0; k < bad_nfr[b]; k++) {
            uintptr_t a = (uintptr_t) bad_bt[b][k];
            if (a >= lo && a < hi) off += snprintf(buf + off, cap - off, "%s\"s+0x%lx\"", k ? "," : "", (unsigned long) (a - base));
            else off += snprintf(buf + off, cap - off, "%s\"0x%lx\"", k ? "," : "", (unsigned long) a);
        }
        off += snprintf(buf + off, cap - off, "]");
    }
    off += snprintf(buf + off, cap - off, "]}");
    unlock();
    return (int) off;
}
