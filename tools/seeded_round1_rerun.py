#!/usr/bin/env python3
"""Re-runs the round-1 seeded changes (seeded/<id>/patch*.diff) through the checks recorded in their meta.json (caught_by +
not_caught_by) with tools/run_seeded.py --copy and writes seeded/results_round1_rerun.json (the patches may have been
re-based onto later fix commits; this confirms they are still caught by the current machinery)."""
import json, os, re, subprocess, sys
V = os.path.dirname(os.path.dirname(os.path.abspath(__file__)))
out = os.path.join(V, "seeded", "results_round1_rerun.json")
res = json.load(open(out)) if os.path.exists(out) else {}
for i in range(1, 21):
    prop = "C%02d" % i
    meta = json.load(open(os.path.join(V, "seeded", prop, "meta.json")))
    for ch in meta["changes"]:
        key = "%s/%s" % (prop, ch["patch"])
        if key in res:
            continue
        checks = sorted(set(list(ch.get("caught_by", {})) + list(ch.get("not_caught_by", [])) + [prop]))
        p = subprocess.run([sys.executable, os.path.join(V, "tools", "run_seeded.py"), os.path.join(V, "seeded", prop, ch["patch"]), "--checks", ",".join(checks), "--copy"],
                           capture_output=True, text=True)
        cur, r = None, {}
        for line in p.stdout.splitlines():
            m = re.match(r"== (C\d\d) exit=(\d+)", line)
            if m:
                cur = m.group(1); r[cur] = dict(exit=int(m.group(2)), keys=[])
            m = re.match(r"\s+key=(\S+)", line)
            if m and cur:
                r[cur]["keys"].append(m.group(1))
        if not r:
            r = {"error": p.stdout[-300:]}
        res[key] = r
        print(key, {c: (v.get("exit"), v.get("keys", [])[:1]) for c, v in r.items() if isinstance(v, dict)}, flush=True)
        json.dump(res, open(out, "w"), indent=1)
