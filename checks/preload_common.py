"""Shared by C18/C19: ld.so.preload file generator, snoopyctl runner and the preload reference model (DESIGN A.3)."""
import itertools
import os
import subprocess

LIBNAME = b"libsnoopy.so"


def alphabet(P):
    """line alphabet (without terminators); P = own library path (bytes)."""
    return [
        ("foreign", b"/usr/lib/libfoo.so"),
        ("foreign-sp", b"/usr/lib/libbar.so "),
        ("foreign-tab-comment", b"/opt/x/libbaz.so\t# a comment"),
        ("blank", b""),
        ("comment", b"# plain comment"),
        ("comment-mention1", b"# " + P),
        ("comment-mention2", b"#/old/libsnoopy.so /older/libsnoopy.so"),
        ("comment-indented", b"  # see /x/libsnoopy.so"),
        ("own", P),
        ("own-sp", P + b" "),
        ("own-tab", P + b"\t"),
        ("own-comment", P + b"#c"),
        ("own-shared", P + b" /usr/lib/libshared.so"),
        ("bak", P + b".bak"),
        ("xpath", b"/x" + P),
        ("own-crlf", P + b"\r"),
        ("foreign-crlf", b"/usr/lib/libdos.so\r"),
        ("other-snoopy", b"/usr/local/lib/libsnoopy.so"),
        ("foreign-percent", b"/usr/lib/lib%s%n%%d-100%.so"),
        ("comment-percent", b"# 100% of %s %n %5$x %"),
        ("own-shared-mention", P + b" /usr/lib/libshared.so # replaces /old/libsnoopy.so"),
        ("own-comment-mention", P + b" # the libsnoopy.so entry"),
    ]


def enumerate_files(P, maxlines):
    """all files of 0..maxlines lines over the alphabet, each terminated and unterminated."""
    al = alphabet(P)
    yield ("absent", None)
    yield ("empty", b"")
    for n in range(1, maxlines + 1):
        for combo in itertools.product(range(len(al)), repeat=n):
            body = b"\n".join(al[i][1] for i in combo)
            name = "+".join(al[i][0] for i in combo)
            yield (name + "/T", body + b"\n")
            if body:
                yield (name + "/U", body)


def random_file(rng, P, maxlines=40):
    al = alphabet(P)
    n = rng.randrange(1, maxlines + 1)
    # bias: mostly foreign/comment lines, a few snoopy-related
    weights = [6, 3, 3, 4, 5, 2, 2, 2, 2, 1, 1, 1, 1, 1, 1, 1, 2, 1, 1, 1, 1, 1]
    idx = rng.choices(range(len(al)), weights=weights, k=n)
    lines = []
    for i in idx:
        l = al[i][1]
        if al[i][0].startswith("foreign") and rng.random() < 0.5:
            l = l.replace(b"lib", b"lib%d" % rng.randrange(1000), 1)
        lines.append(l)
    body = b"\n".join(lines)
    term = rng.random() < 0.7
    name = "rand:" + "+".join(al[i][0] for i in idx)
    return (name + ("/T" if term else "/U"), body + (b"\n" if term else b""))


# ------------------------------------------------------------------ model

def split_lines(content):
    """-> list of (line_bytes, terminator_bytes)"""
    out = []
    pos = 0
    while pos < len(content):
        nl = content.find(b"\n", pos)
        if nl < 0:
            out.append((content[pos:], b""))
            break
        out.append((content[pos:nl], b"\n"))
        pos = nl + 1
    return out


def is_comment_line(line):
    s = line.lstrip(b" \t")
    return s.startswith(b"#")


def code_part(line):
    """text of a non-comment line before any '#'."""
    h = line.find(b"#")
    return line if h < 0 else line[:h]


def tokens(line):
    if is_comment_line(line):
        return []
    return code_part(line).split()


def own_entry_line(line, P):
    """line begins with P followed by end / blank / tab / '#'."""
    if is_comment_line(line) or not line.startswith(P):
        return False
    rest = line[len(P):]
    return rest == b"" or rest[:1] in (b" ", b"\t", b"#")


def classify(content, P):
    """-> dict(own=[idx], foreign=[idx], own_elsewhere=[idx], trailing_only=[idx]) over non-comment lines"""
    res = dict(own=[], foreign=[], own_elsewhere=[], trailing_only=[])
    for i, (line, _) in enumerate(split_lines(content or b"")):
        if is_comment_line(line):
            continue
        if own_entry_line(line, P):
            res["own"].append(i)
            continue
        if LIBNAME in line:
            cp = code_part(line)
            if LIBNAME not in cp:
                res["trailing_only"].append(i)
            elif P in cp.split():
                res["own_elsewhere"].append(i)
            else:
                res["foreign"].append(i)
    return res


def enable_expected(content, P):
    """-> list of acceptable (new_content, exit_class) with exit_class in {'zero','nonzero'}"""
    old = content if content is not None else b""
    c = classify(old, P)
    appended = old + (b"\n" if old and not old.endswith(b"\n") else b"") + P + b"\n"
    same = content  # None means absent stays absent
    if c["own"]:
        return [(same, "zero")]
    if c["foreign"]:
        return [(same, "nonzero")]
    acc = []
    if c["own_elsewhere"]:
        acc += [(same, "nonzero"), (same, "zero")]
        return acc
    if c["trailing_only"]:
        return [(same, "nonzero"), (appended, "zero")]
    return [(appended, "zero")]


def disable_check(old, new, rc, P):
    """returns None if acceptable else (key, message)."""
    oldc = old if old is not None else b""
    c = classify(oldc, P)
    lines = split_lines(oldc)
    untouched = (new == old) or (old is None and new in (None, b""))
    if not c["own"]:
        if not untouched:
            return ("file-changed-without-entry", "own entry not active, yet the file changed")
        return None
    n_active_mentions = len(c["own"]) + len(c["foreign"]) + len(c["own_elsewhere"]) + len(c["trailing_only"])
    if rc != 0:
        if not untouched:
            return ("refused-but-changed", "non-zero exit but the file changed")
        if n_active_mentions >= 2:
            return None     # refusal because of duplicate active entries
        return ("refused-single-entry", "exactly one active line mentions the library, yet disable refused (exit %d)" % rc)
    # exit 0 with an active own entry: must have removed one own entry and nothing else
    if new is None:
        return ("file-removed", "file disappeared")
    if n_active_mentions >= 2 and untouched:
        return None
    for i in c["own"]:
        prefix = b"".join(l + t for l, t in lines[:i])
        suffix = b"".join(l + t for l, t in lines[i + 1:])
        line, term = lines[i]
        want = [t for t in tokens(line)]
        want.remove(P)
        cand = []
        if new.startswith(prefix) and new.endswith(suffix) and len(new) >= len(prefix) + len(suffix):
            mid = new[len(prefix):len(new) - len(suffix)]
            cand.append(mid)
        # entry was the last, unterminated line: the newline of the previous line may stay or go
        for mid in cand:
            body = mid[:-1] if mid.endswith(b"\n") else mid
            if b"\n" in body:
                continue
            if tokens(body) == want and (want or not body.strip() or is_comment_line(body) or body.lstrip().startswith(b"#")):
                return None
            if not want and body == b"":
                return None
    # diagnose what was lost
    old_tokens = [t for l, _ in lines for t in tokens(l)]
    new_tokens = [t for l, _ in split_lines(new) for t in tokens(l)]
    ot = list(old_tokens)
    if P in ot:
        ot.remove(P)
    if new_tokens != ot:
        lost = [t for t in ot if t not in new_tokens]
        if P in new_tokens and new_tokens == old_tokens:
            return ("entry-not-removed", "exit 0 but the own entry is still active")
        return ("foreign-token-lost", "entries other than the own one changed: lost %r" % lost[:3])
    return ("other-line-changed", "lines other than the entry's line were altered")


# ------------------------------------------------------------------ runner

def variant_for(name):
    """deterministically: how the command is started (closed descriptors) and whether the file is a symbolic link"""
    h = sum(name.encode()) % 23
    closed = {3: (1,), 7: (2,), 11: (1, 2), 13: (0,), 17: (0, 1, 2)}.get(h)
    link = {5: "short", 9: "long", 19: "short"}.get(h)
    return closed, link


def stale_for(name, content, P):
    """deterministically gives about a third of the files a left-over temporary file of an earlier, killed run (a run
    killed before its rename leaves one behind - C20 observes that): longer than anything this run writes, or very short."""
    h = sum(name.encode()) % 6
    if h == 0:
        return (content or b"") + P + b"\n" + b"/usr/lib/libremoved-meanwhile.so\n" + P + b"\n# tail of an older version\n" * 3
    if h == 1:
        return b"/u"
    return None


class Ctl:
    def __init__(self, build, work):
        self.ctl = build.snoopyctl
        self.P = build.lib.encode()
        self.file = os.path.join(work, "ld.so.preload")
        self.env = {"PATH": "/usr/bin:/bin", "SNOOPY_TEST_LD_SO_PRELOAD_PATH": self.file,
                    "SNOOPY_TEST_LIBSNOOPY_SO_PATH": build.lib}

    def put(self, content, stale=None, link=None):
        """stale: bytes to leave in the temporary file of an earlier, killed run (None = no such file).
        link: None = regular file; "short" / "long" = ld.so.preload is a symbolic link to the real file (whose name is shorter /
        longer than typical contents)."""
        for f in (self.file, os.path.join(os.path.dirname(self.file), "t"), os.path.join(os.path.dirname(self.file), "the-real-preload-file-behind-a-symbolic-link-" + "x" * 120)):
            try:
                os.unlink(f)
            except FileNotFoundError:
                pass
        if link and content is not None:
            target = os.path.join(os.path.dirname(self.file), "t" if link == "short" else "the-real-preload-file-behind-a-symbolic-link-" + "x" * 120)
            with open(target, "wb") as f:
                f.write(content)
            os.symlink(os.path.basename(target) if link == "short" else target, self.file)
            content = "linked"
        tmp = self.file + ".snoopy-tmp"
        try:
            os.unlink(tmp)
        except FileNotFoundError:
            pass
        if stale is not None:
            with open(tmp, "wb") as f:
                f.write(stale)
        if content is None:
            try:
                os.unlink(self.file)
            except FileNotFoundError:
                pass
        elif content != "linked":
            with open(self.file, "wb") as f:
                f.write(content)

    def get(self):
        try:
            with open(self.file, "rb") as f:
                return f.read()
        except FileNotFoundError:
            return None

    def run(self, action, closed=None):
        """closed: None, or a tuple of descriptor numbers the command is started without (e.g. (1,) = `snoopyctl enable >&-`)"""
        if not closed:
            r = subprocess.run([self.ctl, action], env=self.env, capture_output=True, timeout=30)
            return r.returncode, r.stdout, r.stderr

        def pre():
            for fd in closed:
                try:
                    os.close(fd)
                except OSError:
                    pass
        r = subprocess.run([self.ctl, action], env=self.env, stdin=subprocess.DEVNULL, stdout=subprocess.DEVNULL, stderr=subprocess.DEVNULL, timeout=30, preexec_fn=pre)
        return r.returncode, b"", b""
