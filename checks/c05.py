"""C05 - message format expansion is exact and length-bounded.

The production library logs to a file under generated formats / limits / inputs; the record present when the real exec
is entered is compared with format_model (DESIGN A.2).  Class A: grammar-generated formats (stray %,{,},: characters,
known / unknown / failing / unterminated / nested tags).  Class B: marker-run pieces steered to the two limits -1/0/+1
and far above.  Class C: syslog ident (limit 255) and output path templates (limit PATH_MAX-1).
"""
import os
import time

from vlib import build as vbuild
from vlib.common import Findings, Harness, log, mkwork, rmwork, rng_for, short, tier, write_evidence
from vlib.drive import Script, ensure_harness, pmap, run_vdrive, sink_bytes
from checks import format_model as fm

PROP = "C05"
LIMITS = [255, 256, 257, 1000, 2047, 4096, 65535, 1048575]
LIT_ALPHA = b"abcxyz XYZ019%%{{}}::.,-_/#=@"
ARG_ALPHA = b"abcXYZ019 %{:.,-_/#=@"


def rand_bytes(rng, alpha, n):
    return bytes(rng.choice(alpha) for _ in range(n))


def clean_for_ini(b):
    # keep inside what a double-quoted INI value can carry (no quotes, no newline, no " ;" inline comment start)
    b = b.replace(b'"', b"'").replace(b" ;", b" ,").replace(b"\t;", b"\t,")
    return b


def gen_grammar(rng):
    env = {b"V1": rand_bytes(rng, b"ABCDEFG hij", rng.choice([0, 1, 5, 40, 200])),
           b"V2": rand_bytes(rng, b"mnopq", rng.choice([1, 3, 30]))}
    path = b"/bin/" + rand_bytes(rng, b"pqrs", rng.randrange(1, 12))
    argv = rng.choice([None, [], [b"a0"], [b"prog", b"arg one", b"", b"x:y"], [rand_bytes(rng, b"klm ", rng.randrange(0, 30)) for _ in range(rng.randrange(1, 6))]])
    pieces = []
    for _ in range(rng.randrange(1, 9)):
        k = rng.random()
        if k < 0.35:
            pieces.append(rand_bytes(rng, LIT_ALPHA, rng.choice([0, 1, 2, 7, 30, 120])))
        elif k < 0.50:
            pieces.append(b"%{snoopy_literal:" + rand_bytes(rng, ARG_ALPHA, rng.choice([0, 1, 8, 50, 99, 100, 101, 150, 400])) + b"}")
        elif k < 0.60:
            pieces.append(b"%{env:" + rng.choice([b"V1", b"V2", b"NOPE", b"", b"V1:x"]) + b"}")
        elif k < 0.68:
            pieces.append(rng.choice([b"%{cmdline}", b"%{filename}", b"%{cmdline:ignored}", b"%{filename:%{x}"]))
        elif k < 0.76:
            pieces.append(rng.choice([b"%{failure}", b"%{noop}", b"%{failure:x}", b"%{noop:" + b"z" * rng.choice([1, 98, 120]) + b"}"]))
        elif k < 0.86:
            pieces.append(rng.choice([b"%{nosuch}", b"%{nosuch:arg}", b"%{}", b"%{:x}", b"%{Cmdline}", b"%{cmdline }", b"%{ env:V1}",
                                      b"%{" + b"n" * rng.choice([98, 99, 100, 101, 300]) + b"}"]))
        elif k < 0.93:
            pieces.append(rng.choice([b"%", b"%%", b"{", b"}", b"%}", b"{%", b"%{env:%{snoopy_literal:q}}", b":", b"%:{"]))
        else:
            pieces.append(rng.choice([b"%{cmdline", b"%{", b"%{env:V1", b"%{snoopy_literal:abc"]))
    fmt = clean_for_ini(b"".join(pieces))[:960]
    if fmt.endswith(b" ") or fmt.endswith(b"\t"):
        fmt += b"."
    ds = rng.choice(LIMITS)
    lm = rng.choice(LIMITS)
    return dict(cls="A", fmt=fmt, env=env, path=path, argv=argv, ds=ds, lm=lm)


def gen_boundary(rng):
    ds = rng.choice(LIMITS)
    lm = rng.choice(LIMITS)

    def around(limit):
        return max(0, rng.choice([limit - 1, limit, limit + 1, limit + 2, limit - 2, limit + 1000, limit * 3, limit // 2, 1]))
    env = {}
    fmtp = []
    argv = [b"c0"]
    path = b"/bin/d0"
    total = 0
    shape = rng.choice(["one-ds", "lit-ds", "ds-ds", "lit-ds-lit-ds", "lit-only-before-tag", "total"])
    if shape == "one-ds":
        kind = rng.choice(["env", "cmdline", "filename"])
        n = around(ds)
        fmtp.append(("ds", kind, n))
    elif shape == "lit-ds":
        fmtp += [("lit", b"a", rng.choice([1, 10, around(ds) % 900])), ("ds", rng.choice(["env", "cmdline"]), around(ds))]
    elif shape == "ds-ds":
        fmtp += [("ds", "env", around(ds)), ("lit", b"b", 1), ("ds", "cmdline", around(ds))]
    elif shape == "lit-ds-lit-ds":
        fmtp += [("lit", b"a", 3), ("ds", "env", around(ds)), ("lit", b"b", 2), ("ds", "filename", around(ds))]
    elif shape == "lit-only-before-tag":
        # a literal run longer than the data-source limit is not a data source: must be copied whole when the total fits
        fmtp += [("lit", b"a", rng.choice([254, 255, 256, 257, 300, 900])), ("ds", "env", rng.choice([0, 1, 5]))]
        ds = rng.choice([255, 256, 257])
    else:
        # steer the *total* to log_message_max_length -1/0/+1 with every source below its own limit
        n_parts = rng.choice([1, 2, 3])
        tgt = around(lm)
        per = min(ds, max(1, tgt // n_parts))
        rest = tgt
        kinds = ["env", "cmdline", "filename"]
        for i in range(n_parts):
            n = min(per, rest)
            fmtp.append(("ds", kinds[i], n))
            rest -= n
        if rest > 0 and rest < 900:
            fmtp.append(("lit", b"a", rest))
    fmt = b""
    mark = iter(b"ABCDEFGH")
    for p in fmtp:
        if p[0] == "lit":
            fmt += p[1] * p[2]
        else:
            m = bytes([next(mark)])
            if p[1] == "env":
                name = b"V" + m
                env[name] = m * p[2]
                fmt += b"%{env:" + name + b"}"
            elif p[1] == "cmdline":
                argv = [m * p[2]] if p[2] else [b""]
                fmt += b"%{cmdline}"
            else:
                path = m * p[2]
                fmt += b"%{filename}"
    if len(fmt) > 960:
        return gen_boundary(rng)
    return dict(cls="B", fmt=fmt, env=env, path=path, argv=argv, ds=ds, lm=lm, shape=shape)


def gen_ident(rng):
    # syslog ident template: limit 255 for the whole ident and for each source
    n = rng.choice([0, 1, 10, 200, 253, 254, 255, 256, 257, 400])
    kind = rng.choice(["lit", "env", "mixed", "unknown", "failure"])
    env = {b"VI": b"I" * n}
    if kind == "lit":
        f = b"i" * min(n, 900)
    elif kind == "env":
        f = b"%{env:VI}"
    elif kind == "mixed":
        f = b"id-%{env:VI}-%{snoopy_literal:q}"
    elif kind == "unknown":
        f = b"x%{nosuch}y"
    else:
        f = b"%{failure}/%{env:VI}"
    return dict(cls="I", fmt=f, env=env, path=b"/bin/i0", argv=[b"i0"], ds=255, lm=255)


def gen_pathtpl(rng):
    n = rng.choice([1, 5, 30, 100, 200])
    env = {b"VP": b"P" * n}
    if rng.random() < 0.35:
        # a source output longer than a (lowered) datasource_message_max_length, spread over several path components (each
        # component is limited to 255 bytes by the file system; the directories are created beforehand)
        env = {b"VP": b"/".join([b"p" * rng.choice([60, 100, 120])] * rng.choice([3, 4, 6]))}
    f = rng.choice([b"out-%{env:VP}.log", b"out-%{snoopy_literal:lit}-%{env:VP}", b"o%{noop}ut.%{env:VP}", b"plain-%{env:NOPE}"])
    # the path template has its own fixed limit: what the file sets for message data sources must not reach it
    return dict(cls="P", fmt=f, env=env, path=b"/bin/p0", argv=[b"p0"], ds=4095, lm=4095, dsconf=rng.choice([None, None, 255, 300]))


def make_cases(tr):
    rng = rng_for(PROP, tr)
    nA, nB, nI, nP = (2200, 1400, 250, 150) if tr == "quick" else (50000, 30000, 3000, 1500)
    cases = [gen_grammar(rng) for _ in range(nA)] + [gen_boundary(rng) for _ in range(nB)] + \
            [gen_ident(rng) for _ in range(nI)] + [gen_pathtpl(rng) for _ in range(nP)]
    for i, c in enumerate(cases):
        c["id"] = i + 1
    return cases


def conf_for(c, work, logf):
    if c["cls"] in ("A", "B"):
        return ("[snoopy]\ndatasource_message_max_length = %d\nlog_message_max_length = %d\nmessage_format = \"" % (c["ds"], c["lm"])).encode() + \
            c["fmt"] + ("\"\noutput = file:%s\n" % logf).encode()
    if c["cls"] == "I":
        return b"[snoopy]\nmessage_format = \"MSG\"\nsyslog_ident = \"" + c["fmt"] + b"\"\noutput = devlog\n"
    if c["cls"] == "P":
        lim = (b"datasource_message_max_length = %d\nlog_message_max_length = %d\n" % (c["dsconf"], c["dsconf"])) if c.get("dsconf") else b""
        return b"[snoopy]\n" + lim + b"message_format = \"MSG\"\noutput = file:" + os.path.join(work, "t").encode() + (b"/%d-" % c["id"]) + c["fmt"] + b"\n"
    raise ValueError


def run_batch(arg):
    bld, batch, bi, root = arg
    work = os.path.join(root, "b%04d" % bi)
    os.makedirs(os.path.join(work, "t"), exist_ok=True)
    os.chmod(work, 0o777)
    logf = os.path.join(work, "log")
    open(logf, "a").close()
    F = Findings(PROP)
    st = dict(records=0, exact_fit=0, overflow=0, empty=0, crashed=0, ident=0, pathtpl=0, real=0)
    s = Script()
    s.sinkfile(logf)
    expected_paths = {}
    for c in batch:
        ctx = dict(env=c["env"], path=c["path"], argv=c["argv"])
        if c["cls"] == "P":
            alts = fm.expand(c["fmt"], ctx)
            name = fm.full_text(alts[-1])
            expected_paths[c["id"]] = os.path.join(work, "t").encode() + (b"/%d-" % c["id"]) + name
            os.makedirs(os.path.dirname(expected_paths[c["id"]]), exist_ok=True)
    # path-template sinks are sampled by reading the expected file afterwards
    # consecutive cases share one process in groups of 1..8: limits, formats and outputs change between calls of one process
    sizes = [1, 2, 1, 3, 2, 5, 1, 4, 2, 8]
    left = 0
    group_of = {}
    tag = None
    for c in batch:
        if left <= 0:
            if tag is not None:
                s.endfork()
            tag = c["id"]
            s.fork(tag)
            left = sizes[c["id"] % len(sizes)]
        group_of[c["id"]] = tag
        s.conf(conf_for(c, work, logf))
        s.raw("envset " + Script.vec([k + b"=" + v for k, v in c["env"].items()] or []))
        s.call(c["id"], "execve", c["path"] if c["path"] else b"", c["argv"], [b"E=1"], -1, 2)
        left -= 1
    if tag is not None:
        s.endfork()
    res = run_vdrive(bld, s.text(), work, timeout=600)
    if res.timeout:
        raise Harness("C05 batch timed out")
    byid = {}
    for e in res.events:
        byid.setdefault(e.get("id", e.get("tag")), []).append(e)
    for c in batch:
        evs = byid.get(c["id"], [])
        real = [e for e in evs if e["ev"] == "REAL"]
        gchild = [e for e in byid.get(group_of[c["id"]], []) if e["ev"] == "CHILD"]
        begun = [m for m in batch if group_of[m["id"]] == group_of[c["id"]] and any(e["ev"] == "BEGIN" for e in byid.get(m["id"], []))]
        child = []
        if gchild and gchild[0]["signal"]:
            if begun and begun[-1]["id"] == c["id"]:
                child = gchild          # this case was running when the process died
            elif not any(e["ev"] == "BEGIN" for e in evs):
                st["not_run"] = st.get("not_run", 0) + 1
                continue
        wit = dict(case={k: (v if not isinstance(v, (bytes, dict, list)) else repr(v)[:600]) for k, v in c.items()})
        if child and child[0]["signal"]:
            st["crashed"] += 1
            F.violation("C05:caller-killed:sig%d:%s" % (child[0]["signal"], "tag>=100" if any(len(t) >= 100 for t in tags_of(c["fmt"])) else "other"),
                        "caller died with signal %d while expanding format %s (ds=%d lm=%d)" % (child[0]["signal"], short(c["fmt"]), c["ds"], c["lm"]), wit)
            continue
        if not real:
            raise Harness("no REAL event for case %d" % c["id"])
        st["real"] += 1
        r = real[0]
        ctx = dict(env=c["env"], path=c["path"], argv=c["argv"])
        if c["cls"] in ("A", "B"):
            data = sink_bytes(r, "file0")
            if isinstance(data, tuple):
                F.violation("C05:file-truncated", "log file shrank", wit)
                continue
            if data == b"":
                rec = b""
                st["empty"] += 1
            else:
                if not data.endswith(b"\n") or b"\n" in data[:-1]:
                    F.violation("C05:record-framing", "file gained %r: not exactly one newline-terminated record" % short(data, 100), wit)
                    continue
                rec = data[:-1]
                st["records"] += 1
            bad = fm.check(rec, c["fmt"], ctx, c["ds"], c["lm"])
            alts = fm.expand(c["fmt"], ctx)
            if any(fm.fits(a, c["ds"], c["lm"]) for a in alts):
                st["exact_fit"] += 1
            else:
                st["overflow"] += 1
            if bad:
                key, msg = bad
                sub = ""
                if key == "expansion-truncated" and c["cls"] == "B" and c.get("shape") == "lit-only-before-tag":
                    sub = ":literal-run-longer-than-datasource-limit"
                F.violation("C05:%s%s" % (key, sub), "%s; format %s ds=%d lm=%d got %s" % (msg, short(c["fmt"]), c["ds"], c["lm"], short(rec)), wit)
        elif c["cls"] == "I":
            dg = sink_bytes(r, "devlog")
            if len(dg) != 1:
                F.violation("C05:ident:datagram-count", "%d datagrams at devlog" % len(dg), wit)
                continue
            d = dg[0]
            suffix = b"[%d]: MSG" % r["pid"]
            if not d.startswith(b"<") or not d.endswith(suffix) or b">" not in d:
                F.violation("C05:ident:frame", "devlog datagram %r lacks the <pri>ident[pid]: frame" % short(d, 120), wit)
                continue
            ident = d[d.index(b">") + 1:len(d) - len(suffix)]
            st["ident"] += 1
            bad = fm.check(ident, c["fmt"], ctx, 255, 255)
            if bad:
                F.violation("C05:ident:" + bad[0], "syslog ident: %s; template %s got %d bytes %s" % (bad[1], short(c["fmt"]), len(ident), short(ident, 40)), wit)
        elif c["cls"] == "P":
            p = expected_paths[c["id"]]
            try:
                with open(p, "rb") as f:
                    got = f.read()
            except OSError:
                got = None
            st["pathtpl"] += 1
            if got != b"MSG\n":
                others = os.listdir(os.path.join(work, "t"))
                F.violation("C05:path-template", "expected file %s to hold the record; it holds %r (directory has %d files)" % (short(p, 120), got, len(others)), wit)
            else:
                os.unlink(p)
    rmwork(work)
    return F, st


# ------------------------------------------------------------------ in-vitro arm: formats no config line can carry

def gen_vitro(rng, cid):
    env = {b"V1": rand_bytes(rng, b"ABCDEFG hij", rng.choice([0, 1, 5, 40, 200, 1000])), b"V2": rand_bytes(rng, b"mnopq", rng.choice([1, 3, 30]))}
    path = b"/bin/" + rand_bytes(rng, b"pqrs", rng.randrange(1, 12))
    argv = rng.choice([None, [], [b"a0"], [b"prog", b"arg one", b"", b"x:y"]])
    pieces = []
    for _ in range(rng.choice([1, 2, 5, 20, 60])):
        k = rng.random()
        n = rng.choice([0, 1, 50, 99, 100, 101, 150, 500, 1000, 1022, 1023, 1024])
        if k < 0.3:
            pieces.append(rand_bytes(rng, LIT_ALPHA + b'";\n\t', rng.choice([0, 1, 30, 300, 2000])))
        elif k < 0.5:
            pieces.append(b"%{snoopy_literal:" + rand_bytes(rng, ARG_ALPHA + b'";', min(n, 1000)) + b"}")
        elif k < 0.6:
            pieces.append(b"%{env:" + rng.choice([b"V1", b"V2", b"NOPE", b"N" * min(n, 900)]) + b"}")
        elif k < 0.7:
            pieces.append(rng.choice([b"%{cmdline}", b"%{filename}", b"%{noop}", b"%{failure}"]))
        elif k < 0.85:
            pieces.append(b"%{" + b"n" * min(n, 1000) + rng.choice([b"", b":" + b"a" * rng.choice([0, 10, 500])]) + b"}")
        else:
            pieces.append(rng.choice([b"%", b"{", b"}", b"%{", b"%{env:V1", b"%%{", b":"]))
    fmt = b"".join(pieces).replace(b"\0", b"")
    size = rng.choice([256, 257, 1024, 4096, 16384, 65536])
    dsmax = rng.choice([255, 256, 1000, 2047, 65535])
    return dict(id=cid, cls="V", fmt=fmt, env=env, path=path, argv=argv, size=size, dsmax=dsmax)


def vitro_script(c, B, s):
    s.fork(c["id"])
    s.raw("envset " + Script.vec([k + b"=" + v for k, v in c["env"].items()]))
    s.raw("vinit 0 %s %s %s" % (Script.elem(c["path"]), Script.vec(c["argv"]), Script.vec([b"E=1"])))
    s.raw("vfmt %d %d %d %s" % (c["id"], c["size"], c["dsmax"], Script.elem(c["fmt"])))
    s.raw("vcleanup 0")
    s.endfork()


def vitro_check(c, evs, B):
    wit = dict(case={k: (v if not isinstance(v, (bytes, dict, list)) else repr(v)[:600]) for k, v in c.items()})
    ch = [e for e in evs if e["ev"] == "CHILD"]
    if ch and (ch[0]["signal"] or ch[0]["status"]):
        rep = B.res.san_by_pid.get(ch[0]["pid"], "")
        B.F.violation("C05:vitro:died:sig%d" % ch[0]["signal"], "expanding a %d-byte format into a %d-byte buffer killed the process (%s)" % (len(c["fmt"]), c["size"], rep[:200].replace("\n", " ")), wit)
        return
    v = [e for e in evs if e["ev"] == "V"]
    if not v:
        raise Harness("no vfmt result for case %d" % c["id"])
    if len(v[0]["out"]) // 2 < v[0]["len"]:
        B.count("vitro_result_too_long_to_log")
        return
    rec = bytes.fromhex(v[0]["out"])
    B.count("vitro")
    ctx = dict(env=c["env"], path=c["path"], argv=c["argv"])
    bad = fm.check(rec, c["fmt"], ctx, c["dsmax"], c["size"] - 1)
    if any(fm.fits(a, c["dsmax"], c["size"] - 1) for a in fm.expand(c["fmt"], ctx)):
        B.count("vitro_exact_fit")
    if bad:
        longtag = any(len(t) >= 100 for t in tags_of(c["fmt"]))
        verylong = any(len(t) >= 1000 for t in tags_of(c["fmt"]))
        if verylong and bad[0].startswith("expansion"):
            B.count("vitro_tag_over_1000_not_judged")       # tag/argument lengths above 1000 are outside the property's domain
            return
        B.F.violation("C05:vitro:%s%s" % (bad[0], ":tag>=100" if longtag else ""), "%s; %d-byte format, buffer %d, ds limit %d, got %s" % (bad[1], len(c["fmt"]), c["size"], c["dsmax"], short(rec)), wit)


def tags_of(fmt):
    out = []
    pos = 0
    while True:
        i = fmt.find(b"%{", pos)
        if i < 0:
            return out
        j = fmt.find(b"}", i)
        if j < 0:
            return out
        out.append(fmt[i + 2:j])
        pos = j + 1


def main():
    t0 = time.time()
    tr = tier()
    ensure_harness()
    bld = vbuild.build("plain")
    cases = make_cases(tr)
    root = mkwork("c05")
    # big limits mean big buffers: keep batches small enough to run all 16 workers
    bs = 60
    batches = [(bld, cases[i:i + bs], i // bs, root) for i in range(0, len(cases), bs)]
    results = pmap(run_batch, batches, 16)
    rmwork(root)
    # in-vitro arm on the ASan build: formats, tags and arguments longer than a config line can carry
    from vlib.batch import run_cases
    from vlib.common import HBIN
    abld = vbuild.build("asan")
    exe = vbuild.build_vitro(abld, asan=True)
    rngv = rng_for(PROP, "vitro" + tr)
    vcases = [gen_vitro(rngv, i + 1) for i in range(1500 if tr == "quick" else 40000)]
    Fv, totv = run_cases(PROP, abld, vcases, vitro_script, vitro_check, batch_size=60, asan=True, exe=exe, preload=[os.path.join(HBIN, "libvrec.so")])
    results.append((Fv, totv))
    F = Findings(PROP)
    tot = {}
    for f, st in results:
        for k, v in f.viol.items():
            if k in F.viol:
                F.viol[k]["count"] += v["count"]
            else:
                F.viol[k] = v
        for k, v in st.items():
            tot[k] = tot.get(k, 0) + v
    if (tot.get("records", 0) == 0 or tot.get("exact_fit", 0) == 0 or tot.get("overflow", 0) == 0 or tot.get("ident", 0) == 0) and F.n_unlisted() == 0:
        raise Harness("monitor observed too little: %s" % tot)
    rc = F.report()
    distinct = len({(c["cls"], c["fmt"], c["ds"], c["lm"], repr(c["env"]), c["path"], repr(c["argv"])) for c in cases})
    write_evidence(PROP, "exploration", tr, dict(
        evaluations=len(cases), distinct_nontrivial=distinct,
        rule="A: grammar-generated formats; B: marker-run pieces steered to the limits -1/0/+1/far above; I: syslog ident templates; P: output path templates; limits from %s; distinct = distinct (format, limits, inputs)" % LIMITS,
        samples=[dict(cls=c["cls"], fmt=short(c["fmt"], 100), ds=c["ds"], lm=c["lm"]) for c in cases[:3] + cases[2300:2303] + cases[-2:]],
        monitor_events=tot, build=dict(variant="plain", treehash=bld.treehash), violation_keys=sorted(F.viol)),
        time.time() - t0, F.n_unlisted(),
        ["format_model.py encodes DESIGN A.2; after an unknown data source both 'stop' and 'continue' are accepted",
         "when the expansion does not fit, only the two bounds and the order/prefix structure of marker pieces are asserted"])
    log("[C05] %d cases %s %.1fs" % (len(cases), tot, time.time() - t0))
    return rc
