"""C19 - snoopyctl disable removes only its own entry (same generated files as C18)."""
import os
import time

from vlib import build as vbuild
from vlib.common import Findings, Harness, log, mkwork, rmwork, tier, write_evidence
from vlib.drive import pmap
from checks import preload_common as pc
from checks.c18 import gen_files, merge

PROP = "C19"


def check_file(ctl, name, content, F, st):
    P = ctl.P
    stale = pc.stale_for(name, content, P)
    closed, link = pc.variant_for(name)
    ctl.put(content, stale, link)
    st["closed_fds"] = st.get("closed_fds", 0) + (closed is not None)
    st["symlinked"] = st.get("symlinked", 0) + (link is not None and content is not None)
    st["stale_tmp"] = st.get("stale_tmp", 0) + (stale is not None)
    rc, out, err = ctl.run("disable", closed)
    new = ctl.get()
    st["runs"] += 1
    wit = dict(file=name, started_without_fds=closed, symlink=link, stale_tmp=None if stale is None else stale.decode("latin-1"), content=None if content is None else content.decode("latin-1"), rc=rc,
               result=None if new is None else new.decode("latin-1"), stderr=err.decode("latin-1")[-300:])
    bad = pc.disable_check(content, new, rc, P)
    if bad:
        key, msg = bad
        if key == "refused-single-entry":
            c = pc.split_lines(content or b"")
            sub = "comment-with-several-mentions" if any(pc.is_comment_line(l) and l.count(pc.LIBNAME) > 1 for l, _ in c) else (
                "indented-comment" if any(pc.is_comment_line(l) and l[:1] in b" \t" and pc.LIBNAME in l for l, _ in c) else "other")
            key += ":" + sub
        if key == "foreign-token-lost":
            cl = pc.classify(content or b"", P)
            lines = pc.split_lines(content or b"")
            shared = any(len(pc.tokens(lines[i][0])) > 1 for i in cl["own"])
            key += ":entry-shares-line" if shared else ":other"
        F.violation("C19:" + key, "%s (file %s)" % (msg, name), wit)
    else:
        cl = pc.classify(content or b"", P)
        if cl["own"] and rc == 0 and new != content:
            st["removed"] += 1
        elif rc != 0:
            st["refused"] += 1
        else:
            st["absent"] += 1
    # round trip: enable; disable restores originals that were empty or newline-terminated and did not mention the library
    if content in (None, b"") or (content.endswith(b"\n") and pc.LIBNAME not in content):
        ctl.put(content)
        rc1, _, _ = ctl.run("enable")
        rc2, _, _ = ctl.run("disable")
        back = ctl.get()
        st["runs"] += 2
        st["roundtrips"] += 1
        if rc1 != 0 or rc2 != 0 or not (back == content or (content is None and back == b"")):
            F.violation("C19:roundtrip-differs", "enable;disable gave %r from %r (exits %d,%d) (file %s)" % (back, content, rc1, rc2, name),
                        dict(wit, back=None if back is None else back.decode("latin-1")))


def worker(arg):
    bld, files, wi, root = arg
    work = os.path.join(root, "w%03d" % wi)
    os.makedirs(work, exist_ok=True)
    ctl = pc.Ctl(bld, work)
    F = Findings(PROP)
    st = dict(runs=0, removed=0, refused=0, absent=0, roundtrips=0)
    for name, content in files:
        check_file(ctl, name, content, F, st)
    return F, st


def main():
    t0 = time.time()
    tr = tier()
    bld = vbuild.build("plain")
    P = bld.lib.encode()
    files = gen_files(P, tr, PROP)
    root = mkwork("c19")
    nw = 16
    chunks = [(bld, files[i::nw * 4], i, root) for i in range(nw * 4)]
    F = Findings(PROP)
    tot = {}
    merge(pmap(worker, chunks, nw), F, tot)
    rmwork(root)
    if (tot.get("removed", 0) == 0 or tot.get("absent", 0) == 0 or tot.get("roundtrips", 0) == 0) and F.n_unlisted() == 0:
        raise Harness("monitor did not observe removals / absent entries / round trips: %s" % tot)
    rc = F.report()
    write_evidence(PROP, "exploration", tr, dict(
        evaluations=len(files), distinct_nontrivial=len({c for _, c in files}),
        rule="same generated files as C18 (exhaustive over the line alphabet for small files + random); own entry at every position; distinct = distinct byte contents",
        exhaustive_small_files=True,
        samples=[dict(file=n, content=None if c is None else c.decode("latin-1")) for n, c in files[:2] + files[700:703] + files[-2:]],
        monitor_events=tot, build=dict(variant="plain", treehash=bld.treehash), violation_keys=sorted(F.viol)),
        time.time() - t0, F.n_unlisted(),
        ["token/line model of ld.so.preload as in DESIGN A.3", "what happens to a trailing comment on the entry's own line is left open"])
    log("[C19] %d files, %s, %.1fs" % (len(files), tot, time.time() - t0))
    return rc
