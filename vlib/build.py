"""Builds /repo's *current working tree* in a scratch copy, per variant, cached by tree hash."""
import fcntl
import hashlib
import os
import shutil
import subprocess
import time

from .common import BUILDS, GUARD, REPO, ROOT, SYSCONF, Harness, ensure_dirs, log

BASE_FLAGS = "-D%s" % GUARD

VARIANTS = {
    # name: (CC, CFLAGS, extra configure args)
    "plain": ("gcc", "-O1 -g", []),
    "plain-nts": ("gcc", "-O1 -g", ["--disable-thread-safety"]),
    "asan": ("gcc", "-O1 -g -fno-omit-frame-pointer -fsanitize=address,undefined -fno-sanitize-recover=all", []),
    "asan-nts": ("gcc", "-O1 -g -fno-omit-frame-pointer -fsanitize=address,undefined -fno-sanitize-recover=all",
                 ["--disable-thread-safety"]),
    "tsan": ("gcc", "-O1 -g -fsanitize=thread", []),
    "errlog": ("gcc", "-O1 -g", ["--enable-error-logging"]),
    "fuzz": ("clang", "-O1 -g -fno-omit-frame-pointer -fsanitize=fuzzer-no-link,address,undefined -fno-sanitize=object-size -fno-sanitize-recover=all", []),
}

# files that a bootstrapped checkout has although git ignores them
BOOTSTRAP_NAMES = ("configure", "Makefile.in", "aclocal.m4", "config.h.in")


def _git_files():
    out = subprocess.run(["git", "-C", REPO, "ls-files", "-co", "--exclude-standard", "-z"],
                         capture_output=True, check=True).stdout
    files = [f for f in out.decode().split("\0") if f]
    files = [f for f in files if not (f.startswith("tests/") and f.endswith(".out"))]
    return files


def _bootstrap_files():
    res = []
    for dp, dn, fn in os.walk(REPO):
        rel = os.path.relpath(dp, REPO)
        if rel == ".":
            rel = ""
        dn[:] = [d for d in dn if d not in (".git", "autom4te.cache", ".libs", ".deps")]
        inaux = rel.startswith("build/aux") or rel.startswith("build/m4")
        for f in fn:
            if f in BOOTSTRAP_NAMES or inaux:
                res.append(os.path.join(rel, f) if rel else f)
    return res


def file_list():
    s = set(_git_files())
    s.update(_bootstrap_files())
    return sorted(f for f in s if os.path.lexists(os.path.join(REPO, f)))


def treehash(files=None):
    files = files if files is not None else file_list()
    h = hashlib.sha256()
    for f in files:
        p = os.path.join(REPO, f)
        try:
            st = os.lstat(p)
            h.update(f.encode() + b"\0" + oct(st.st_mode).encode() + b"\0")
            if os.path.islink(p):
                h.update(os.readlink(p).encode())
            else:
                with open(p, "rb") as fh:
                    h.update(fh.read())
        except OSError:
            h.update(b"<gone>")
        h.update(b"\0")
    return h.hexdigest()[:16]


class Build:
    def __init__(self, d, variant, th):
        self.dir = d
        self.variant = variant
        self.treehash = th
        self.src = os.path.join(d, "src")
        self.lib = os.path.join(d, "src", "src", ".libs", "libsnoopy.so")
        self.archive = os.path.join(d, "src", "src", ".libs", "libsnoopy-no-entrypoint.a")
        self.snoopyctl = os.path.join(d, "src", "src", "cli", "snoopyctl")
        self.inih = os.path.join(d, "src", "lib", "inih", "src", ".libs", "libinih.a")
        self.config_h = os.path.join(d, "src", "config.h")

    def sym_offset(self, name):
        out = subprocess.run(["nm", self.lib], capture_output=True, text=True).stdout
        for line in out.splitlines():
            p = line.split()
            if len(p) == 3 and p[2] == name:
                return int(p[0], 16)
        return None


def _prune_old(th):
    if not os.path.isdir(BUILDS):
        return
    for d in os.listdir(BUILDS):
        if d != th and not d.startswith("x-"):
            p = os.path.join(BUILDS, d)
            # do not remove a tree another check is still building in / using (recent activity)
            try:
                age = time.time() - os.stat(p).st_mtime
            except OSError:
                continue
            if age > 6 * 3600 or not os.path.exists(os.path.join(p, ".inuse")):
                shutil.rmtree(p, ignore_errors=True)


def _needs_autoreconf(src):
    cfg = os.path.join(src, "configure")
    if not os.path.exists(cfg):
        return True
    t = os.stat(cfg).st_mtime
    for dp, dn, fn in os.walk(src):
        for f in fn:
            if f in ("configure.ac", "Makefile.am") or f.endswith(".m4") and "build/m4" in dp:
                if os.stat(os.path.join(dp, f)).st_mtime > t + 1:
                    return True
    return False


def build(variant="plain", extra_cfg=None, tag=None, cflags_extra=""):
    """Returns a Build for the current working tree of /repo; rebuilds iff the tree changed."""
    ensure_dirs()
    files = file_list()
    th = treehash(files)
    name = tag or variant
    cc, cflags, cfgargs = VARIANTS[variant]
    cfgargs = list(cfgargs) + list(extra_cfg or [])
    os.makedirs(os.path.join(BUILDS, th), exist_ok=True)
    open(os.path.join(BUILDS, th, ".inuse"), "w").close()
    os.utime(os.path.join(BUILDS, th))
    _prune_old(th)
    d = os.path.join(BUILDS, th, name)
    lockf = open(os.path.join(BUILDS, th, name + ".lock"), "w")
    fcntl.flock(lockf, fcntl.LOCK_EX)
    try:
        b = Build(d, variant, th)
        if os.path.exists(os.path.join(d, ".ok")) and os.environ.get("VERIF_NO_CACHE") != "1":
            return b
        shutil.rmtree(d, ignore_errors=True)
        os.makedirs(b.src)
        lst = os.path.join(d, "files.lst")
        with open(lst, "w") as f:
            f.write("\n".join(files) + "\n")
        r = subprocess.run(["rsync", "-a", "--files-from=" + lst, REPO + "/", b.src + "/"],
                           capture_output=True, text=True)
        if r.returncode != 0:
            raise Harness("rsync of working tree failed: " + r.stderr[-500:])
        t0 = time.time()
        logf = open(os.path.join(d, "build.log"), "w")
        env = dict(os.environ)
        env.pop("LD_PRELOAD", None)
        if _needs_autoreconf(b.src):
            log("[build] configure inputs newer than configure: running autoreconf")
            subprocess.run(["autoreconf", "-i", "-f"], cwd=b.src, stdout=logf, stderr=logf, env=env)
        cmd = ["./configure", "--sysconfdir=" + SYSCONF, "--prefix=" + ROOT + "/prefix",
               "CC=" + cc, "CFLAGS=%s %s %s" % (cflags, BASE_FLAGS, cflags_extra)] + cfgargs
        r = subprocess.run(cmd, cwd=b.src, stdout=logf, stderr=logf, env=env)
        if r.returncode != 0:
            raise Harness("configure failed for variant %s (see %s/build.log)" % (name, d))
        for sub in ("lib", "src"):
            r = subprocess.run(["make", "-j16", "-C", sub], cwd=b.src, stdout=logf, stderr=logf, env=env)
            if r.returncode != 0:
                raise Harness("make -C %s failed for variant %s (see %s/build.log)" % (sub, name, d))
        logf.close()
        if not os.path.exists(b.lib):
            raise Harness("build produced no libsnoopy.so for variant %s" % name)
        open(os.path.join(d, ".ok"), "w").close()
        log("[build] %s/%s built in %.1fs" % (th, name, time.time() - t0))
        return b
    finally:
        fcntl.flock(lockf, fcntl.LOCK_UN)
        lockf.close()


def build_vitro(bld, asan=True):
    """links harness/vdrive.c in VITRO mode against this build's static archive (all internal functions callable)."""
    out = os.path.join(bld.dir, "vinvitro")
    src = os.path.join(os.path.dirname(os.path.dirname(os.path.abspath(__file__))), "harness", "vdrive.c")
    if os.path.exists(out) and os.stat(out).st_mtime > os.stat(src).st_mtime:
        return out
    san = ["-fsanitize=address,undefined", "-fno-sanitize-recover=all", "-fno-omit-frame-pointer"] if asan else []
    cmd = ["gcc", "-DVITRO", "-O1", "-g", "-fno-delete-null-pointer-checks", "-fno-builtin-execv", "-fno-builtin-execve"] + san + \
          ["-rdynamic", "-o", out + ".tmp", src, bld.archive, "-ldl", "-lpthread"]
    r = subprocess.run(cmd, capture_output=True, text=True)
    if r.returncode != 0:
        raise Harness("cannot link the in-vitro harness against %s: %s" % (bld.archive, r.stderr[-1500:]))
    os.replace(out + ".tmp", out)
    return out


def cleanup_all():
    shutil.rmtree(BUILDS, ignore_errors=True)
