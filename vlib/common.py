"""Shared plumbing for all checks: paths, seeds, verdict bookkeeping, known findings, evidence."""
import hashlib
import json
import os
import random
import re
import shutil
import sys
import time

VERIF = os.path.dirname(os.path.dirname(os.path.abspath(__file__)))
REPO = os.environ.get("VERIF_REPO", "/repo")
ROOT = "/var/tmp/snoopy-verif"            # all scratch lives here (never /tmp, /repo, /verif)
SYSCONF = ROOT + "/sysconf"               # compile-time $sysconfdir of every verification build
CONF_PATH = SYSCONF + "/snoopy.ini"
BUILDS = ROOT + "/b"
WORK = ROOT + "/w"
HBIN = os.path.join(VERIF, "harness", "bin")
EVIDENCE_DIR = os.path.join(VERIF, "evidence")
REPLAYS = os.path.join(VERIF, "replays")
KNOWN_FINDINGS = os.path.join(VERIF, "known_findings.json")
GUARD = "A2O_SNOOPY_VERIF"
NCPU = min(16, os.cpu_count() or 4)


def seed():
    try:
        return int(os.environ.get("VERIF_SEED", "1"))
    except ValueError:
        return 1


def rng_for(prop, extra=""):
    h = hashlib.sha256(("%d/%s/%s" % (seed(), prop, extra)).encode()).digest()
    return random.Random(int.from_bytes(h[:8], "big"))


def ensure_dirs():
    for d in (ROOT, SYSCONF, BUILDS, WORK):
        os.makedirs(d, exist_ok=True)
    for d in (ROOT, SYSCONF, WORK):
        try:
            os.chmod(d, 0o755)
        except OSError:
            pass


def mkwork(tag):
    ensure_dirs()
    d = os.path.join(WORK, "%s-%d-%d" % (tag, os.getpid(), int(time.time() * 1000) % 100000000))
    os.makedirs(d)
    os.chmod(d, 0o777)
    return d


def rmwork(d):
    shutil.rmtree(d, ignore_errors=True)


def hx(b):
    if isinstance(b, str):
        b = b.encode("latin-1")
    return b.hex() if b else "-"


def unhx(s):
    if s in ("", "-"):
        return b""
    return bytes.fromhex(s)


class Harness(Exception):
    """The machinery itself failed (exit 2); never a verdict about the code under test."""


class Findings:
    """Collects violation keys of one check run and routes them through known_findings.json."""

    def __init__(self, prop):
        self.prop = prop
        self.viol = {}        # key -> dict(desc, replay)
        self.inconclusive = []
        self.known = []
        try:
            with open(KNOWN_FINDINGS) as f:
                kf = json.load(f)
        except FileNotFoundError:
            kf = {"known": [], "fixed": []}
        self.known_entries = [k for k in kf.get("known", []) if k.get("property") == prop]

    def violation(self, key, desc, witness):
        """key: stable discriminating class; witness: JSON-able replay data."""
        if key in self.viol:
            self.viol[key]["count"] += 1
            return
        os.makedirs(os.path.join(REPLAYS, self.prop), exist_ok=True)
        safe = re.sub(r"[^A-Za-z0-9_.@-]+", "_", key)[:150]
        path = os.path.join(REPLAYS, self.prop, safe + ".json")
        with open(path, "w") as f:
            json.dump({"property": self.prop, "key": key, "what": desc, "seed": seed(),
                       "witness": witness}, f, indent=1, default=repr)
        self.viol[key] = {"desc": desc, "replay": path, "count": 1}

    def inconclusive_case(self, why):
        self.inconclusive.append(why)

    def match_known(self, key):
        for k in self.known_entries:
            pat = k.get("key")
            if pat and (pat == key or (pat.endswith("*") and key.startswith(pat[:-1]))):
                return k
        return None

    def report(self):
        """Prints KNOWN-FINDING / VIOLATION lines; returns exit code 0/1."""
        rc = 0
        seen_known = set()
        for key, v in sorted(self.viol.items()):
            k = self.match_known(key)
            if k is not None:
                if k["key"] not in seen_known:
                    seen_known.add(k["key"])
                    print("KNOWN-FINDING: property=%s %s (key %s, %d occurrence(s) this run)" % (
                        self.prop, k.get("what", v["desc"]), k["key"], v["count"]))
                else:
                    print("KNOWN-FINDING: property=%s also matched by key %s" % (self.prop, key))
            else:
                rc = 1
                print("VIOLATION property=%s replay=%s" % (self.prop, v["replay"]))
                print("  key=%s count=%d: %s" % (key, v["count"], v["desc"]))
        return rc

    def n_unlisted(self):
        return sum(1 for k in self.viol if self.match_known(k) is None)


def write_evidence(prop, level, tier, coverage, wall_s, violations, assumptions=None):
    os.makedirs(EVIDENCE_DIR, exist_ok=True)
    ev = {
        "property_id": prop,
        "tier": tier,
        "seed": seed(),
        "level": level,
        "coverage": coverage,
        "assumptions": assumptions or [],
        "wall_s": round(wall_s, 2),
        "violations": violations,
    }
    # minimal self-validation against what EVIDENCE.schema.json demands
    cov = coverage
    for k in ("evaluations", "distinct_nontrivial", "rule", "samples"):
        if k not in cov:
            raise Harness("evidence coverage lacks %s" % k)
    if cov["evaluations"] < 1 or cov["distinct_nontrivial"] < 2 or not cov["samples"]:
        raise Harness("evidence: observed too little (evaluations=%s distinct=%s)" % (
            cov["evaluations"], cov["distinct_nontrivial"]))
    try:
        import jsonschema  # optional (tooling venv); plain python3 falls back to the checks above
        with open("/root/.vp/EVIDENCE.schema.json") as f:
            jsonschema.validate(ev, json.load(f))
    except ImportError:
        pass
    except FileNotFoundError:
        pass
    path = os.path.join(EVIDENCE_DIR, prop + ".json")
    tmp = path + ".tmp"
    with open(tmp, "w") as f:
        json.dump(ev, f, indent=1, default=repr)
    os.replace(tmp, path)
    return path


def tier():
    t = os.environ.get("VERIF_TIER", "quick")
    return t if t in ("quick", "thorough") else "quick"


def short(b, n=80):
    """printable, truncated rendering of bytes for samples."""
    if isinstance(b, str):
        b = b.encode("latin-1", "replace")
    s = b[:n].decode("latin-1")
    s = "".join(c if 32 <= ord(c) < 127 else "\\x%02x" % ord(c) for c in s)
    if len(b) > n:
        s += "...(%d bytes)" % len(b)
    return s


def log(*a):
    print(*a, file=sys.stderr, flush=True)
