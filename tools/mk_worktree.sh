#!/bin/sh
# mk_worktree.sh <dir> : scratch git worktree of /repo HEAD with the (git-ignored) autotools bootstrap files copied in,
# so that ./configure && make && make check work there.  Remove with: git -C /repo worktree remove --force <dir>
set -e
D="$1"
git -C /repo worktree add -q --detach "$D" HEAD
cd /repo
find . \( -name .git -o -name autom4te.cache -o -name .libs -o -name .deps \) -prune -o \
  \( -name configure -o -name Makefile.in -o -name aclocal.m4 -o -name config.h.in -o -path './build/aux/*' -o -path './build/m4/*' \) -type f -print \
  | rsync -a --files-from=- /repo/ "$D"/
echo "worktree ready: $D"
