"""C09 - concurrent exec calls from threads stay isolated and complete.

Arm (a) systematic: vsched runs 2..4 threads x 1..3 failing wrapped calls under a controlled scheduler whose scheduling
  points are Snoopy's own pthread_mutex_lock / unlock / pthread_once calls; every schedule with at most 2 (quick) / 3
  (thorough) preemptions is executed (stateless DFS, fresh process per schedule).  Per schedule: no deadlock, no lock
  leak, lock not held at the real exec, every call exactly one record with its own token / pthread id / kernel tid,
  1 <= snoopy_threads <= threads, and the closing lone call reports exactly one registered thread.
Arm (b) race detector: the -fsanitize=thread build under 8..64 real threads, one data source at a time first in the
  format (to shorten the lock-free distance to the code under test), zero ThreadSanitizer reports required; the same
  workload on the plain build is checked with the record oracle.
Arm (c): non-thread-safe build, single-threaded use, record oracle.
"""
import glob
import os
import re
import subprocess
import time

from vlib import build as vbuild
from vlib.common import Findings, Harness, HBIN, SYSCONF, log, mkwork, rmwork, rng_for, short, tier, write_evidence
from vlib.drive import ensure_harness, pmap, san_key
from checks import ini_gen

PROP = "C09"
FMT = '%{filename}|%{cmdline}|%{tid}|%{tid_kernel}|%{snoopy_threads}'


def write_conf(work, fmt, out, chain=None):
    conf = os.path.join(work, "conf")
    os.makedirs(conf, exist_ok=True)
    with open(os.path.join(conf, "snoopy.ini"), "w") as f:
        f.write('[snoopy]\nmessage_format = "%s"\noutput = %s\n' % (fmt, out))
        if chain:
            f.write('filter_chain = "%s"\n' % chain)
        else:
            f.write('filter_chain = "noop;only_uid:0"\n')
        # every option parser runs under concurrency (each call re-parses the file)
        f.write('syslog_facility = local3\nsyslog_level = LOG_DEBUG\nsyslog_ident = "id-%{pid}"\ndatasource_message_max_length = 4k\n'
                'log_message_max_length = 8k\nerror_logging = no\n')
    return conf


def check_records(records, threads, nt, nc, F, wit, tag, lone_tid=None, lone_pt=None, with_threads=True, nullargv=False):
    """records: list of str lines; threads: {t: (pthread, ktid)}"""
    seen = {}
    ok = 0
    for r in records:
        p = r.split("|")
        if len(p) != (5 if with_threads else 4):
            F.violation("C09:%s:malformed-record" % tag, "record %r does not have the format's fields" % r[:120], wit)
            continue
        fn, cmd, pt, kt = p[0], p[1], p[2], p[3]
        m = re.match(r"^/bin/(T(\d+)C(\d+)z|LONEz)$", fn)
        if not m:
            F.violation("C09:%s:foreign-filename" % tag, "record filename %r is not a token of this run" % fn[:80], wit)
            continue
        tok = m.group(1)
        seen[tok] = seen.get(tok, 0) + 1
        want_cmd = "/bin/%s arg-%s" % (tok, tok)
        if nullargv and tok != "LONEz" and int(m.group(3)) % 5 == 3:
            want_cmd = "/bin/%s" % tok              # argv NULL or {NULL}: cmdline falls back to the path
        if cmd != want_cmd:
            F.violation("C09:%s:cross-call-leak" % tag, "record of %s carries cmdline %r (another call's arguments)" % (tok, cmd[:100]), wit)
            continue
        if tok == "LONEz":
            if with_threads and p[4] != "1":
                F.violation("C09:%s:thread-registry-not-empty-after-all-calls" % tag, "the closing lone call reports snoopy_threads=%s" % p[4], wit)
            continue
        t = int(m.group(2))
        ept, ekt = threads[t]
        if pt != str(ept) or kt != str(ekt):
            F.violation("C09:%s:wrong-thread-identity" % tag, "record of %s reports tid %s / %s, the calling thread is %s / %s" % (tok, pt, kt, ept, ekt), wit)
            continue
        if with_threads:
            try:
                n = int(p[4])
            except ValueError:
                n = -1
            if not (1 <= n <= nt):
                F.violation("C09:%s:snoopy_threads-out-of-range" % tag, "snoopy_threads=%s with %d threads" % (p[4], nt), wit)
                continue
        ok += 1
    exp = {"T%dC%dz" % (t, c) for t in range(nt) for c in range(nc)} | {"LONEz"}
    missing = sorted(exp - set(seen))
    dup = sorted(k for k, v in seen.items() if v > 1)
    if missing:
        F.violation("C09:%s:record-missing" % tag, "%d call(s) produced no record, e.g. %s" % (len(missing), missing[:3]), wit)
    if dup:
        F.violation("C09:%s:record-duplicated" % tag, "calls logged more than once: %s" % dup[:3], wit)
    return ok


def dfs_shard(arg):
    bld, nt, nc, pre, maxs, shard, nshards, root = arg
    import json
    work = os.path.join(root, "d%d_%d_%d_%d" % (nt, nc, pre, shard))
    os.makedirs(work, exist_ok=True)
    logp = os.path.join(work, "log")
    conf = write_conf(work, FMT, "file:" + logp)
    env = {"PATH": "/usr/bin:/bin", "LD_PRELOAD": "%s %s" % (bld.lib, os.path.join(HBIN, "libvrec.so"))}
    r = subprocess.run([os.path.join(HBIN, "vsched"), "--mount", "%s:%s" % (conf, SYSCONF), "--log", logp, "--threads", str(nt), "--calls", str(nc),
                        "--preemptions", str(pre), "--max-schedules", str(maxs), "--shard", "%d/%d" % (shard, nshards)],
                       env=env, capture_output=True, timeout=3600, cwd=work)
    F = Findings(PROP)
    st = dict(schedules=0, inconclusive=0, records_ok=0, capped=0)
    hashes = set()
    if r.returncode != 0:
        raise Harness("vsched failed rc=%d: %s" % (r.returncode, r.stderr[-300:]))
    cfg = "%dx%d" % (nt, nc)
    for line in r.stdout.splitlines():
        try:
            e = json.loads(line)
        except ValueError:
            raise Harness("unparsable vsched line %r" % line[:200])
        if e["ev"] == "DUP":
            continue
        if e["ev"] == "DFS":
            if e["left_on_stack"]:
                st["capped"] += e["left_on_stack"]
            continue
        st["schedules"] += 1
        wit = dict(threads=nt, calls=nc, preemption_bound=pre, schedule=[x[3] for x in e.get("trace", [])], raw={k: v for k, v in e.items() if k not in ("trace",)})
        if e.get("crashed"):
            F.violation("C09:sched:crash:sig%d" % e["signal"], "a schedule of %s crashed with signal %d" % (cfg, e["signal"]), wit)
            continue
        if e["timeout"]:
            st["inconclusive"] += 1
            continue
        if e["problem"]:
            F.violation("C09:sched:%s" % e["problem"].split(":")[0], "%s under a schedule of %s" % (e["problem"], cfg), wit)
            continue
        if e["lock_held_at_real"]:
            F.violation("C09:sched:lock-held-at-real-exec", "Snoopy's mutex was held by the calling thread when the real exec was entered", wit)
        if e["nreal"] != nt * nc:        # (counted before the closing lone call)
            F.violation("C09:sched:real-exec-count", "%d real execs for %d calls" % (e["nreal"], nt * nc), wit)
        threads = {t[0]: (t[1], t[2]) for t in e["threads"]}
        st["records_ok"] += check_records(e["records"], threads, nt, nc, F, wit, "sched")
        hashes.add(hash(tuple((x[0], x[3]) for x in e["trace"])))
    rmwork(work)
    return F, st, hashes


def stress_run(arg):
    bld, kind, nt, ncalls, fmt, out, seed, root, idx = arg[:9]
    chain = arg[9] if len(arg) > 9 else None
    opts = arg[10] if len(arg) > 10 else {}          # nullargv / canary / stack / socket_full / extra config lines
    if os.path.exists(os.path.join(root, "THREADS-STUCK")):
        # an earlier run of this sweep already ended with every thread parked in a lock wait: the verdict is in, the remaining
        # runs would each sit out their watchdog for nothing (a check has to terminate on a broken tree too)
        return Findings(PROP), dict(stress_runs=0, stress_calls=0, tsan_reports=0, concurrent_runs=0, stress_skipped_after_stuck=1)
    work = os.path.join(root, "s%s%04d" % (kind, idx))
    os.makedirs(work, exist_ok=True)
    logp = os.path.join(work, "log")
    sockp = os.path.join(work, "sock")
    outspec = {"file": "file:" + logp, "noop": "noop", "devnull": "devnull", "socket": "socket:" + sockp, "devlog": "devlog"}[out]
    conf = write_conf(work, fmt, outspec, chain[0] if chain else None)
    if opts.get("conf_extra"):
        with open(os.path.join(conf, "snoopy.ini"), "a") as f:
            f.write(opts["conf_extra"])
    keep = None
    if opts.get("socket_full"):
        # the socket sink exists, is never read and its queue is full: every send fails after a successful connect
        import socket as _s
        rs = _s.socket(_s.AF_UNIX, _s.SOCK_DGRAM)
        rs.bind(sockp)
        os.chmod(sockp, 0o777)
        snd = _s.socket(_s.AF_UNIX, _s.SOCK_DGRAM)
        snd.setblocking(False)
        try:
            while True:
                snd.sendto(b"x" * 2000, sockp)
        except OSError:
            pass
        keep = (rs, snd)
    exe = os.path.join(HBIN, "vthreads-tsan" if kind == "tsan" else "vthreads")
    dsock = None
    if out == "devlog" and kind != "tsan":
        import socket
        dsock = socket.socket(socket.AF_UNIX, socket.SOCK_DGRAM)
        dsock.bind(os.path.join(work, "devlogsock"))
        dsock.setsockopt(socket.SOL_SOCKET, socket.SO_RCVBUF, 64 * 1024 * 1024)
        dsock.setblocking(False)
    env = {"PATH": "/usr/bin:/bin", "LD_PRELOAD": "%s %s" % (bld.lib, os.path.join(HBIN, "libvrec.so")), "LOGNAME": "lg", "HOME": "/root", "TZ": "UTC",
           "VREC_DEVLOG": os.path.join(work, "devlogsock" if dsock else "nodevlog"),
           "TSAN_OPTIONS": "halt_on_error=0:report_signal_unsafe=0:log_path=%s/tsan:history_size=4" % work}
    drained = []
    stop = []
    if dsock is not None:
        import threading

        def drain():
            import select
            while not stop:
                rl, _, _ = select.select([dsock], [], [], 0.05)
                if rl:
                    try:
                        while True:
                            drained.append(dsock.recv(65536))
                    except OSError:
                        pass
        th_ = threading.Thread(target=drain)
        th_.start()
    xargs = (["--ancestor", opts["ancestor"]] if opts.get("ancestor") else []) + (["--nullargv"] if opts.get("nullargv") else []) + (["--canary"] if opts.get("canary") else []) + (["--stack", str(opts["stack"])] if opts.get("stack") else [])
    pr = subprocess.Popen([exe, "--mount", "%s:%s" % (conf, SYSCONF), "--threads", str(nt), "--calls", str(ncalls), "--seed", str(seed), "--out", os.path.join(work, "issued")] + xargs,
                          env=env, stdout=subprocess.PIPE, stderr=subprocess.PIPE, cwd=work)
    try:
        so, se = pr.communicate(timeout=opts.get("timeout", 150))
        r = subprocess.CompletedProcess(pr.args, pr.returncode, so, se)
    except subprocess.TimeoutExpired:        # (the process is still there: look at it before it is killed)
        # are the threads all parked in a lock wait (one of them left the library with its mutex held), or is the run just slow?
        from vlib.drive import kill_stragglers
        states = []
        for d in os.listdir("/proc"):
            if not d.isdigit():
                continue
            try:
                with open("/proc/%s/cmdline" % d, "rb") as f:
                    cl = f.read()
                if work.encode() not in cl or b"vthreads" not in cl:
                    continue
                for t in os.listdir("/proc/%s/task" % d):
                    with open("/proc/%s/task/%s/syscall" % (d, t)) as f:
                        states.append(f.read().split()[0])
            except OSError:
                continue
        pr.kill()
        kill_stragglers(work)           # (the threads may live in a child of that process - --ancestor - which holds the pipes)
        try:
            pr.communicate(timeout=10)
        except subprocess.TimeoutExpired:
            pass
        F = Findings(PROP)
        wit = dict(kind=kind, threads=nt, calls=ncalls, format=fmt, output=out, seed=seed, filter_chain=chain, options=opts, task_syscalls=states[:40])
        if dsock is not None:
            stop.append(1)
            th_.join()
            dsock.close()
        if states and all(x in ("202", "61", "247") for x in states):
            open(os.path.join(root, "THREADS-STUCK"), "w").close()
            F.violation("C09:stress:threads-stuck", "%d threads making exec calls never finished: every thread of the process sits in a lock wait (format %s, output %s)" % (nt, fmt[:60], out), wit)
            return F, dict(stress_runs=1, stress_calls=0, tsan_reports=0, concurrent_runs=0)
        raise Harness("threads driver timed out without being parked in lock waits: %s" % states[:20])
    del keep
    if dsock is not None:
        stop.append(1)
        th_.join()
    F = Findings(PROP)
    st = dict(stress_runs=1, stress_calls=nt * ncalls, tsan_reports=0, concurrent_runs=0)
    wit = dict(kind=kind, threads=nt, calls=ncalls, format=fmt, output=out, seed=seed, filter_chain=chain, options=opts)
    if r.returncode != 0 and kind != "tsan":
        F.violation("C09:stress:crash:rc%d" % r.returncode, "threads driver died (rc %d) with format %s" % (r.returncode, fmt[:60]), dict(wit, stderr=r.stderr.decode("latin-1")[-500:]))
        return F, st
    threads = {}
    maxin = 0
    try:
        for l in open(os.path.join(work, "issued")):
            p = l.split()
            if p[0] == "THREAD":
                threads[int(p[1])] = (int(p[2]), int(p[3]))
            elif p[0] == "DONE":
                maxin = int(p[3].split("=")[1])
            elif p[0] == "CANARY":
                cv = dict(x.split("=") for x in p[1:])
                st["canary_iterations"] = int(cv["iterations"])
                # a thread that never calls exec: its descriptors, the process umask and the working directory are none of the
                # library's business, whatever the other threads are logging at that moment
                if int(cv["fd_lost"]):
                    F.violation("C09:stress:bystander-descriptor-closed", "a descriptor owned by a thread that never execs was closed or replaced %s times while %d threads were logging to %s" % (
                        cv["fd_lost"], nt, out), wit)
                if int(cv["umask_changed"]):
                    F.violation("C09:stress:process-umask-disturbed", "a bystander thread saw the process umask differ from 027 %s times while %d threads were logging to %s" % (cv["umask_changed"], nt, out), wit)
                if int(cv["cwd_changed"]):
                    F.violation("C09:stress:process-cwd-disturbed", "a bystander thread saw the working directory change %s times" % cv["cwd_changed"], wit)
    except OSError:
        pass
    if maxin >= 2:
        st["concurrent_runs"] = 1
    if kind == "tsan":
        reps = []
        for f in glob.glob(os.path.join(work, "tsan.*")):
            with open(f, errors="replace") as fh:
                txt = fh.read()
            reps += [b for b in txt.split("==================") if "WARNING: ThreadSanitizer" in b]
        for b in reps:
            st["tsan_reports"] += 1
            # dedupe by the pair of snoopy functions involved
            fns = re.findall(r"#\d+ (snoopy_\w+|execve?|exec\w*) ", b)
            locs = re.findall(r"(\w[\w.-]*\.c):\d+", b)
            loc = next((x for x in locs if x not in ("vthreads.c",)), "?")
            key = "C09:tsan:%s@%s" % ((re.search(r"ThreadSanitizer: ([\w -]+?) \(", b) or re.search(r"ThreadSanitizer: ([\w -]+)", b)).group(1).strip().replace(" ", "-"), loc)
            F.violation(key, "ThreadSanitizer report with format %s output %s, %d threads: %s" % (fmt[:50], out, nt, (fns[:3] or ["?"])), dict(wit, report=b[:5000]))
        if r.returncode not in (0, 66) and not reps:
            F.violation("C09:stress:crash:rc%d" % r.returncode, "TSan threads driver died (rc %d) without a report" % r.returncode, dict(wit, stderr=r.stderr.decode("latin-1")[-500:]))
    if dsock is not None:
        # every datagram must carry the configured priority (local3|debug = 159) and ident: a value parsed concurrently by
        # another thread must not leak into this thread's record
        n_ok = n_bad = 0
        bad_example = None
        while True:
            try:
                drained.append(dsock.recv(65536))
            except OSError:
                break
        for d in drained:
            if d.startswith(b"<159>id-"):
                n_ok += 1
            else:
                n_bad += 1
                bad_example = bad_example or d[:80]
        dsock.close()
        st["devlog_datagrams"] = n_ok + n_bad
        if n_bad:
            F.violation("C09:stress:devlog-frame-differs", "%d of %d devlog records do not carry the configured priority/ident <159>id-... under %d threads, e.g. %r" % (n_bad, n_ok + n_bad, nt, bad_example), wit)
    if out == "file" and fmt == FMT and threads:
        try:
            with open(logp, errors="replace") as fh:
                recs = fh.read().splitlines()
        except FileNotFoundError:
            recs = []           # nothing was ever logged
        if chain and chain[1] == "drop":
            # every call must be dropped by the chain, whatever the other threads are doing in the chain walker
            st["stress_dropped_runs"] = 1
            if recs:
                F.violation("C09:stress:dropped-call-logged", "%d of %d calls that the chain %r drops when made alone were logged under %d concurrent threads" % (
                    len(recs), nt * ncalls + 1, chain[0], nt), dict(wit, example=recs[:3]))
        else:
            check_records(recs, threads, nt, ncalls, F, wit, "stress", nullargv=bool(opts.get("nullargv")))
        st["stress_records"] = len(recs)
    rmwork(work)
    return F, st


def main():
    t0 = time.time()
    tr = tier()
    ensure_harness()
    rng = rng_for(PROP, tr)
    F = Findings(PROP)
    tot = {}
    root = mkwork("c09")
    bld = vbuild.build("plain")
    # (a) systematic schedules
    if tr == "quick":
        cfgs = [(2, 1, 2, 800000), (2, 2, 2, 800000), (3, 1, 2, 800000)]
    else:
        cfgs = [(2, 1, 3, 800000), (2, 2, 3, 1600000), (3, 1, 3, 1600000), (3, 2, 2, 800000), (4, 1, 2, 800000), (2, 3, 2, 800000)]
    jobs = []
    for nt, nc, pre, cap in cfgs:
        for sh in range(16):
            jobs.append((bld, nt, nc, pre, cap // 16, sh, 16, root))
    distinct = set()
    percfg = {}
    for (f, st, hs), job in zip(pmap(dfs_shard, jobs, 16), jobs):
        from vlib.batch import merge_findings
        merge_findings(F, f)
        for k, v in st.items():
            tot["dfs." + k] = tot.get("dfs." + k, 0) + v
        distinct |= {(job[1], job[2], h) for h in hs}
        percfg["%dx%d<=%dpre" % (job[1], job[2], job[3])] = percfg.get("%dx%d<=%dpre" % (job[1], job[2], job[3]), 0) + st["schedules"]
    tot["dfs.distinct_schedules"] = len(distinct)
    # (b) race detector + stress
    tbld = vbuild.build("tsan")
    sj = []
    idx = 0
    sources = [d for d in ini_gen.ALL_DS]
    reps = 1 if tr == "quick" else 10
    ncalls = 300 if tr == "quick" else 2000
    for rep in range(reps):
        for d in sources:
            sj.append((tbld, "tsan", rng.choice([16, 32, 64]), ncalls, "%{" + d + "} %{cmdline}", rng.choice(["noop", "noop", "devnull"]), rng.randrange(1, 10**6), root, idx))
            idx += 1
        for out in ("file", "socket", "devlog", "noop"):
            sj.append((tbld, "tsan", rng.choice([8, 32, 64]), 50, FMT, out, rng.randrange(1, 10**6), root, idx))
            idx += 1
    for i in range(6 if tr == "quick" else 60):
        sj.append((bld, "plain", rng.choice([2, 8, 32, 64]), 200, FMT, "file", rng.randrange(1, 10**6), root, idx))
        idx += 1
    for i in range(4 if tr == "quick" else 30):
        sj.append((bld, "plain", rng.choice([8, 16, 32]), 2000, "%{cmdline}", "devlog", rng.randrange(1, 10**6), root, idx))
        idx += 1
    # filter chains with several elements under real concurrency (the chain walker must not share state between threads)
    for i in range(12 if tr == "quick" else 120):
        longl = ",".join(str(1000 + j) for j in range(150))           # long lists: the list parser itself runs for a while in every thread
        shortl = ",".join(str(1000 + j) for j in range(80))           # (a config line holds 1023 bytes: two lists must share them)
        ch = rng.choice([("noop;noop;noop;only_uid:7", "drop"), ("noop;exclude_uid:5;only_uid:0,1;noop;exclude_uid:0", "drop"),
                         ("noop;only_uid:0;exclude_uid:7;noop", "log"), ("only_root;noop;noop;noop;exclude_spawns_of:nope", "log"),
                         ("only_uid:%s,0" % longl, "log"), ("exclude_uid:%s,0" % longl, "drop"), ("exclude_uid:%s;only_uid:%s,0" % (shortl, shortl), "log"),
                         ("exclude_spawns_of:%s" % ",".join("prog%d" % j for j in range(120)), "log")])
        sj.append((bld, "plain", rng.choice([16, 32, 64]), 1500 if tr == "quick" else 3000, FMT, "file", rng.randrange(1, 10**6), root, idx, ch))
        idx += 1
    # NULL / empty argument vectors from several threads at once; a bystander thread watching its descriptors, the umask and the
    # cwd; small thread stacks with the largest configurable limits; a socket sink whose sends all fail
    BIG = "log_message_max_length = 1048575\ndatasource_message_max_length = 1048575\n"
    for i in range(4 if tr == "quick" else 40):
        sj.append((bld, "plain", rng.choice([4, 16, 32]), 1500, FMT, "file", rng.randrange(1, 10**6), root, idx, None, dict(nullargv=True, canary=True)))
        idx += 1
    for i in range(3 if tr == "quick" else 30):
        sj.append((bld, "plain", rng.choice([8, 32]), 1500, FMT, "socket", rng.randrange(1, 10**6), root, idx, None, dict(canary=True, socket_full=True)))
        idx += 1
    for i in range(2 if tr == "quick" else 20):
        sj.append((bld, "plain", rng.choice([4, 16]), 300, FMT, "file", rng.randrange(1, 10**6), root, idx, None, dict(stack=256 * 1024, conf_extra=BIG, canary=True)))
        idx += 1
    sj.append((tbld, "tsan", 16, 200, FMT, "file", rng.randrange(1, 10**6), root, idx, None, dict(nullargv=True)))
    idx += 1
    # the threads run below an ancestor that is the LAST name of a long exclude_spawns_of list: every call must be dropped
    progs = ",".join("prog%d" % j for j in range(110))
    for i in range(3 if tr == "quick" else 30):
        sj.append((bld, "plain", rng.choice([8, 32]), 1500, FMT, "file", rng.randrange(1, 10**6), root, idx, ("exclude_spawns_of:%s,listedanc" % progs, "drop"), dict(ancestor="listedanc")))
        idx += 1
    sj.append((bld, "plain", 16, 1000, FMT, "file", rng.randrange(1, 10**6), root, idx, ("exclude_spawns_of:%s,listedanc" % progs, "log"), dict(ancestor="otheranc")))
    idx += 1
    # data sources on their own error paths under threads (a result that does not fit, an unknown argument, an unset variable)
    for i in range(2 if tr == "quick" else 20):
        sj.append((bld, "plain", rng.choice([4, 16]), 300, "%{datetime:%c | %c | %c | %c | %c | %c}|%{cgroup:nosuch}|%{env:UNSETVAR}|%{cmdline}", "file", rng.randrange(1, 10**6), root, idx, None, dict(timeout=180)))
        idx += 1
    # (c) non-thread-safe build, single-threaded use
    nbld = vbuild.build("plain-nts")
    for f, st in pmap(stress_run, sj, 8):
        from vlib.batch import merge_findings
        merge_findings(F, f)
        for k, v in st.items():
            tot["stress." + k] = tot.get("stress." + k, 0) + v
    nts_ok = 0
    for i in range(3):
        work = os.path.join(root, "nts%d" % i)
        os.makedirs(work, exist_ok=True)
        logp = os.path.join(work, "log")
        conf = write_conf(work, '%{filename}|%{cmdline}|%{tid}|%{tid_kernel}', "file:" + logp)
        env = {"PATH": "/usr/bin:/bin", "LD_PRELOAD": "%s %s" % (nbld.lib, os.path.join(HBIN, "libvrec.so"))}
        r = subprocess.run([os.path.join(HBIN, "vthreads"), "--mount", "%s:%s" % (conf, SYSCONF), "--threads", "1", "--calls", "300", "--seed", str(i), "--out", os.path.join(work, "issued")],
                           env=env, capture_output=True, timeout=600, cwd=work)
        if r.returncode != 0:
            F.violation("C09:nts:crash", "non-thread-safe build, single thread: driver died rc=%d" % r.returncode, dict(stderr=r.stderr.decode("latin-1")[-300:]))
            continue
        threads = {}
        for l in open(os.path.join(work, "issued")):
            p = l.split()
            if p[0] == "THREAD":
                threads[int(p[1])] = (int(p[2]), int(p[3]))
        recs = open(logp, errors="replace").read().splitlines()
        nts_ok += check_records(recs, threads, 1, 300, F, dict(build="plain-nts"), "nts", with_threads=False)
    tot["nts.records_ok"] = nts_ok
    rmwork(root)
    if (tot.get("dfs.distinct_schedules", 0) < 2 or tot.get("stress.stress_runs", 0) == 0 or nts_ok == 0) and F.n_unlisted() == 0:
        raise Harness("observed too little: %s" % tot)
    if (tot.get("stress.concurrent_runs", 0) < tot.get("stress.stress_runs", 0) * 0.9) and F.n_unlisted() == 0 and not tot.get("stress.stress_skipped_after_stuck"):
        raise Harness("most stress runs never had two calls in flight at once: %s" % tot)
    if (tot.get("dfs.inconclusive", 0) > tot["dfs.schedules"] // 100) and F.n_unlisted() == 0:
        raise Harness("too many schedules hit the wall-clock watchdog: %s" % tot)
    rc = F.report()
    write_evidence(PROP, "exploration", tr, dict(
        evaluations=tot["dfs.schedules"] + tot["stress.stress_runs"], distinct_nontrivial=tot["dfs.distinct_schedules"],
        rule="(a) all schedules at synchronisation-point granularity (lock, unlock, once) with a bounded number of preemptions, configurations %s; distinct = distinct (thread, chosen) sequences actually executed; (b) one TSan run per data source placed first in the format + FMT runs per output; (c) single-threaded non-thread-safe build" % cfgs,
        samples=[dict(config=k, schedules=v) for k, v in percfg.items()],
        schedules_per_config=percfg, schedules_left_unexplored_by_cap=tot.get("dfs.capped", 0),
        monitor_events=tot, builds=dict(plain=bld.treehash, tsan=tbld.treehash, nts=nbld.treehash), violation_keys=sorted(F.viol)),
        time.time() - t0, F.n_unlisted(),
        ["scheduling points are Snoopy's pthread_mutex_lock/unlock/pthread_once calls only: adequate exactly when the race-detector arm is clean",
         "TSan is a happens-before detector and only sees instrumented code; the frequent lock operations can hide races between distant accesses (workload shaped to shorten that distance)",
         "a schedule that exceeds the 20 s wall-clock watchdog is inconclusive, never a violation"])
    log("[C09] %s %.1fs" % (tot, time.time() - t0))
    return rc
