#!/usr/bin/env python3
"""Applies a seeded change to /repo, runs checks against it, and ALWAYS reverts /repo afterwards.

  tools/run_seeded.py <patch.diff> [--checks C01,C16] [--tier quick] [--copy]

With --copy the patch is applied to a scratch worktree of /repo's HEAD (bootstrap files copied in) and the checks run with
VERIF_REPO pointing there: /repo itself is not touched (for use while a long background run is using /repo).

Prints, per check, the exit code and the VIOLATION / KNOWN-FINDING lines.  /repo must be clean (tracked files) before.
Evidence files written during these runs are restored from git afterwards (they describe a mutated tree).
"""
import os
import subprocess
import sys

V = os.path.dirname(os.path.dirname(os.path.abspath(__file__)))


def sh(cmd, **kw):
    return subprocess.run(cmd, shell=True, capture_output=True, text=True, **kw)


def main():
    patch = os.path.abspath(sys.argv[1])
    checks = None
    tier = "quick"
    if "--checks" in sys.argv:
        checks = sys.argv[sys.argv.index("--checks") + 1].split(",")
    if "--tier" in sys.argv:
        tier = sys.argv[sys.argv.index("--tier") + 1]
    copy = "--copy" in sys.argv
    repo = "/repo"
    if copy:
        repo = "/var/tmp/snoopy-verif/seedrepo-%d" % os.getpid()
        sh("git -C /repo worktree remove --force %s" % repo)
        r = sh("sh %s/tools/mk_worktree.sh %s" % (V, repo))
        if r.returncode != 0:
            print("cannot create scratch worktree: " + r.stderr[-300:])
            return 2
    st = sh("git -C %s status --porcelain --untracked-files=no" % repo).stdout.strip()
    if st:
        print("refusing: /repo has uncommitted tracked changes:\n" + st)
        return 2
    r = sh("git -C %s apply --check %s" % (repo, patch))
    if r.returncode != 0:
        print("patch does not apply to /repo HEAD: " + r.stderr[-500:])
        return 2
    sh("git -C %s apply %s" % (repo, patch))
    results = {}
    try:
        for c in checks:
            env = dict(os.environ, VERIF_TIER=tier, VERIF_REPO=repo)
            p = subprocess.run([sys.executable, os.path.join(V, "verif.py"), "check", c], capture_output=True, text=True, env=env, cwd=V)
            lines = [l for l in p.stdout.splitlines() if l.startswith(("VIOLATION", "KNOWN-FINDING", "HARNESS-FAILURE", "  key="))]
            results[c] = (p.returncode, lines)
            print("== %s exit=%d" % (c, p.returncode))
            for l in lines[:14]:
                print("   " + l[:400])
            if p.returncode == 2:
                print("   stderr tail: " + p.stderr[-600:])
    finally:
        if copy:
            sh("git -C /repo worktree remove --force %s" % repo)
        else:
            sh("git -C /repo checkout -- .")
            sh("git -C /repo clean -fdq -- src lib")        # files a patch may have added
        sh("git -C %s checkout -- evidence" % V)
    caught = [c for c, (rc, _) in results.items() if rc == 1]
    print("CAUGHT-BY: %s" % (",".join(caught) if caught else "none"))
    return 0 if caught else 1


if __name__ == "__main__":
    sys.exit(main())
