#!/usr/bin/env python3
"""Fourth round of seeded changes (seeded/<id>/round4/): table of what each change is and needs, runner and meta writer.

  tools/seeded_round4.py run      runs every change through the listed checks (tools/run_seeded.py --copy: a scratch worktree of
                                  /repo's HEAD, /repo itself untouched) and writes seeded/results_round4.json
  tools/seeded_round4.py meta     writes seeded/<id>/round2/meta.json from the table + results + /tmp-independent verification
                                  results (seeded/verified_round4.json, produced by tools/verify_seeded.sh runs)
  tools/seeded_round4.py table    prints the DESIGN.md table
"""
import json
import os
import re
import subprocess
import sys

V = os.path.dirname(os.path.dirname(os.path.abspath(__file__)))

R4 = {
 "C01": [
  dict(n="", what="datetime data source refactored so that its two error returns sit inside the fork-guard section: the thread keeps the (recursive) registry mutex for good",
       needs="%{datetime:FMT} expanding to nothing or to more than 79 bytes, then an exec or fork by another thread", checks="C09,C16,C10,C01", missed=True,
       strengthened='C16 judges the lock depth after the call has returned (not only at the real exec) and its formats drive data sources into their own error paths (over-long / empty datetime formats, unknown cgroup controller, empty env name); C09 got the same formats under threads with a threads-stuck verdict'),
  dict(n="2", what="wrappers resolve execv/execve through dlopen(libc, RTLD_NOLOAD) instead of dlsym(RTLD_NEXT): a second interposer loaded after libsnoopy.so is skipped",
       needs="another execv/execve interposer behind libsnoopy.so in the preload order", checks="C01", missed=False),
 ],
 "C02": [
  dict(n="", what="getSmallTextFileContent() returns a string literal for 'file too large' while its caller (cgroup source) frees what it gets: abort in the caller",
       needs="%{cgroup}/%{systemd_unit_name} and a /proc/<pid>/cgroup of 10240 bytes or more", checks="C02,C03", missed=True,
       strengthened="C03 natural states with /proc/<pid>/cgroup replaced (bind mount in the driver's namespace) by a 12 KiB file / an unreadable one"),
  dict(n="2", what="fflush(stdout) moved after the signal mask is restored: the real write happens with SIGPIPE unblocked", needs="output stdout on a pipe whose reader is gone", checks="C03,C02", missed=False),
 ],
 "C03": [
  dict(n="", what="fork guard moved into configfile_load() around ini_parse(): the early return on a parse/open failure skips the unlock", needs="snoopy.ini absent/unreadable/malformed, then an exec or fork by another thread", checks="C09,C16,C10,C03", missed=True,
       strengthened="C16 runs also start from an absent / unreadable / directory snoopy.ini and judge the lock depth after return (C01's absent-config cases see the held lock at the real exec as built, but C01 was not the property under attack)"),
  dict(n="2", what="domain source loops 'while (!feof)' with continue on a NULL fgets: a read error (not EOF) spins forever", needs="%{domain} and read() of /etc/hosts failing (EIO, EISDIR)", checks="C03", missed=True,
       strengthened="C03's persistent faults now start at every read/openat position in turn, not only at the first one of the window"),
 ],
 "C04": [
  dict(n="", what="file output expands its path template with datasource_message_max_length instead of PATH_MAX-1 as the per-source limit", needs="a path template tag expanding to more than datasource_message_max_length bytes", checks="C04,C05", missed=True,
       strengthened='C05 path templates with a source output longer than a lowered datasource_message_max_length, spread over pre-created directory levels'),
  dict(n="2", what="socket(): failure test '== -1' became '<= 0': with descriptor 0 free the socket is taken for a failure", needs="socket/devlog output and a caller with stdin closed", checks="C16,C04", missed=False),
 ],
 "C05": [
  dict(n="", what="literal text in front of a tag copied through the data-source scratch buffer: cut to datasource_message_max_length", needs="a literal run before a tag longer than a lowered datasource_message_max_length", checks="C05", missed=False),
  dict(n="2", what="inih inline-comment prefixes widened from ';' to ';#': values are cut at ' #'", needs="a '#' preceded by a blank in a format, argument or path", checks="C05,C08", missed=False),
 ],
 "C06": [
  dict(n="", what="#ifdef guards of inputdatastorage.c test an undefined macro name: the module silently becomes one static struct shared by all threads", needs="two threads inside exec at the same time", checks="C09,C06", missed=False),
  dict(n="2", what="input data ctor no longer resets, and store_argv/envp ignore NULL: an abandoned call's argv shows up in a later NULL-argv call", needs="a call abandoned mid-logging (longjmp / cancel), then a NULL-argv call by the same thread id", checks="C06", missed=True,
       strengthened="none: needs a call abandoned in the middle by siglongjmp from a signal handler or by thread cancellation - a state the harness does not construct (DESIGN section 6); the unchanged library has a carry-over of its own in that state (stale registry entry), so generating it would raise alarms that are outside the properties' quantifiers", not_claimed=True),
 ],
 "C07": [
  dict(n="", what="registry lookup by strncmp(entry, name, strlen(name)): an unknown name that is a prefix of a filter name runs that filter", needs="an unknown chain element that is a proper prefix of a filter name (or empty)", checks="C13,C07", missed=False),
  dict(n="2", what="fclose() of the stat stream skipped on the 'found' return of exclude_spawns_of: a dropped call execs with an extra open descriptor", needs="exclude_spawns_of matching an ancestor", checks="C16,C15,C07", missed=False),
 ],
 "C08": [
  dict(n="", what="an unparsable syslog_facility leaves the current value instead of writing the default", needs="a valid syslog_facility followed by an unparsable one in the same file", checks="C08", missed=True,
       strengthened='none: the property says both that the last occurrence wins and that unparsable values leave the defaults in force, the unchanged code resets names to the default but keeps the earlier value for booleans; the reference model accepts either for every option (DESIGN A.1 open points), so this change is inside what the model allows', not_claimed=True),
  dict(n="2", what="inih rstrip() uses a hand-written blank set without CR/FF/VT", needs="CRLF line endings (or a line ending in FF/VT)", checks="C08", missed=False),
 ],
 "C09": [
  dict(n="", what="datetime source: the strftime()==0 branch returns without leaving the fork guard", needs="an over-long datetime format, then a call by another thread", checks="C09,C16", missed=True,
       strengthened='see C01/r4/patch (C09 threads-stuck verdict, C16 lock depth after return)'),
  dict(n="2", what="a failed config load switches config-file parsing off for the whole process", needs="one transient load failure in one call, then further calls", checks="C11,C09", missed=False),
 ],
 "C10": [
  dict(n="", what="output dispatch wrapped in the fork guard", needs="a thread blocked in an output (FIFO without reader) while another thread forks", checks="C10,C03", missed=True,
       strengthened='C10: a fork() that had to wait while a thread was stopped right before an I/O call of its *log output* is a violation (fork-waits-for-log-sink); waiting during the config parse or a lookup is not'),
  dict(n="2", what="datetime source forgets forkGuard_leave on the strftime()==0 return", needs="an over-long datetime format in a call that returns, then fork/exec by another thread", checks="C10,C09,C16", missed=True,
       strengthened='see C01/r4/patch'),
 ],
 "C11": [
  dict(n="", what="wrappers call the real exec first and clean up only if it returns: a vfork child's successful exec leaves the parent with an un-reset configuration record", needs="vfork + successful exec, then a config change, then an exec by the parent", checks="C11,C01", missed=False),
  dict(n="2", what="a failed config load disables config-file parsing for the process", needs="one call under a deleted/unreadable/damaged file, then calls under a good one", checks="C11", missed=False),
 ],
 "C12": [
  dict(n="", what="getpwuid_r failure merged with 'no entry': a failed lookup reports user-<uid> instead of an error", needs="a fault inside the passwd lookup (EMFILE, ERANGE)", checks="C12,C03", missed=True,
       strengthened='C12 got a lookup-fault arm (in vitro): name sources with a full descriptor table and with a passwd/group entry larger than the lookup buffer; an error text is accepted, a wrong name or the no-such-id placeholder is not'),
  dict(n="2", what="tag buffer and argument pointer hoisted out of the per-tag loop: a tag without argument inherits an earlier tag's argument", needs="a tag with argument before a plain %{datetime}", checks="C05,C12,C04", missed=False),
  dict(n="3", what="hostname buffer one byte short (HOST_NAME_MAX without +1)", needs="a host name of exactly 64 characters", checks="C12", missed=False),
 ],
 "C13": [
  dict(n="", what="data source table row for uid holds snoopy_datasource_euid", needs="real and effective uid differ", checks="C13,C12", missed=False),
  dict(n="2", what="lookup compares before testing the end marker: the empty name is found one past the end", needs="an empty name", checks="C13,C02", missed=False),
 ],
 "C14": [
  dict(n="", what="filter registry caches its last lookup by the *address* of the name: the chain walker's name buffer has the same address for every element", needs="two differently named filters with arguments in one chain", checks="C07,C14", missed=False),
  dict(n="2", what="strtol with an INT_MAX upper bound: list entries from 2^31 are skipped", needs="a real uid of 2^31 or above", checks="C14", missed=False),
 ],
 "C15": [
  dict(n="", what="/proc/<pid>/stat read with open(); 'if (fd <= 0) return -1'", needs="the caller has descriptor 0 closed", checks="C15,C16", missed=False),
  dict(n="2", what="names compared with strncmp over the length of the process name only: a list item that extends an ancestor's name matches", needs="a list item that begins with an ancestor's name", checks="C15", missed=False),
 ],
 "C16": [
  dict(n="", what="'no such user' branch returns early without freeing the getpwuid_r scratch buffer", needs="%{username} and a uid without passwd entry, repeated calls", checks="C16,C11", missed=False),
  dict(n="2", what="cgroup source's error branch no longer frees the error text returned by the file helper", needs="%{cgroup} and a failing read of /proc/<pid>/cgroup, repeated calls", checks="C16,C03", missed=False),
 ],
 "C17": [
  dict(n="", what="line built with snprintf into log_message_max_length+1 bytes: a record of exactly the maximum length loses its newline", needs="a record exactly log_message_max_length long", checks="C17,C04,C05", missed=False),
  dict(n="2", what="flock(LOCK_EX|LOCK_NB) before the write, record dropped when the lock is busy", needs="another writer between its flock and close, or any holder of an flock on the file", checks="C17,C03,C04", missed=False),
 ],
 "C18": [
  dict(n="", what="fclose() of the temporary file dropped: with descriptor 1 closed at start the stream is fd 1 and the [DIAG]/SUCCESS lines land in ld.so.preload at exit", needs="snoopyctl started with stdout closed", checks="C18,C19,C20", missed=True,
       strengthened='C18/C19 start a fifth of the commands without stdout / stderr / stdin (or all three)'),
  dict(n="2", what="file size taken from lstat(): a symlinked ld.so.preload is read up to the length of the link target", needs="ld.so.preload is a symlink", checks="C18,C19", missed=True,
       strengthened='in C18/C19 ld.so.preload is a symbolic link (short and long target names) for an eighth of the inputs'),
 ],
 "C19": [
  dict(n="", what="write-failure branch unlinks filePath instead of tmpFilePath", needs="a write fault while the temporary file is written", checks="C20,C19", missed=False),
  dict(n="2", what="'other instance' warning prints the matching line with an in-place NUL-terminating helper on the buffer that is written afterwards", needs="the entry shares its line with text that still mentions libsnoopy.so, and further lines below", checks="C19", missed=True,
       strengthened='line alphabet of C18/C19 extended by an own entry that shares its line with another entry and a comment naming libsnoopy.so, and an own entry with such a comment'),
 ],
 "C20": [
  dict(n="", what="fchmod() failure now reported with an unbuffered warning on fd 2 while the temporary file is open", needs="snoopyctl started with stderr closed and fchmod failing", checks="C20,C18", missed=True,
       strengthened='C20 repeats every injected non-write fault with the command started without stdout and without stderr'),
  dict(n="2", what="short/failed fread accepted ('< 0' on an unsigned count)", needs="a read fault on ld.so.preload (EIO) or a file shrinking between ftell and fread", checks="C20,C18", missed=False),
 ],
}


def run():
    res = {}
    out = os.path.join(V, "seeded", "results_round4.json")
    if os.path.exists(out):
        res = json.load(open(out))
    only = sys.argv[2:] or None
    for prop, items in R4.items():
        for it in items:
            key = "%s/round4/patch%s.diff" % (prop, it["n"])
            if only and not any(o in key for o in only):
                continue
            p = subprocess.run([sys.executable, os.path.join(V, "tools", "run_seeded.py"), os.path.join(V, "seeded", key), "--checks", it["checks"], "--copy"],
                               capture_output=True, text=True)
            cur = None
            r = {}
            for line in p.stdout.splitlines():
                m = re.match(r"== (C\d\d) exit=(\d+)", line)
                if m:
                    cur = m.group(1)
                    r[cur] = dict(exit=int(m.group(2)), keys=[])
                m = re.match(r"\s+key=(\S+)", line)
                if m and cur:
                    r[cur]["keys"].append(m.group(1))
            res[key] = r
            print(key, {c: (v["exit"], v["keys"][:2]) for c, v in r.items()}, flush=True)
            json.dump(res, open(out, "w"), indent=1)


def meta():
    res = json.load(open(os.path.join(V, "seeded", "results_round4.json")))
    ver = json.load(open(os.path.join(V, "seeded", "verified_round4.json")))
    for prop, items in R4.items():
        d = os.path.join(V, "seeded", prop, "round4")
        m = dict(property=prop, round=4, changes=[])
        for it in items:
            key = "%s/round4/patch%s.diff" % (prop, it["n"])
            r = res.get(key, {})
            v = ver.get(key, {})
            m["changes"].append(dict(patch="patch%s.diff" % it["n"], demo="demo%s.sh" % it["n"], breaks_property=prop, what=it["what"], needs=it["needs"],
                                     missed_at_first=it["missed"], strengthened=it.get("strengthened"), note=it.get("note"), not_claimed=it.get("not_claimed", False), neutralised_by_later_fix=it.get("neutralised", False),
                                     confirmed=v,
                                     ran="tools/run_seeded.py <patch> --checks %s --copy  (patch applied to a scratch worktree of /repo HEAD, checks run with VERIF_REPO pointing there; same as git -C /repo apply / check / git -C /repo checkout -- .)" % it["checks"],
                                     caught_by={c: x["keys"][:6] for c, x in r.items() if x["exit"] == 1},
                                     not_caught_by=[c for c, x in r.items() if x["exit"] == 0]))
        json.dump(m, open(os.path.join(d, "meta.json"), "w"), indent=1)
    print("round-2 meta written")


def table():
    res = json.load(open(os.path.join(V, "seeded", "results_round4.json")))
    print("| id | change | needs, to manifest | caught by (first key) | history |")
    print("|---|---|---|---|---|")
    for prop, items in R4.items():
        for it in items:
            key = "%s/round4/patch%s.diff" % (prop, it["n"])
            r = res.get(key, {})
            caught = ", ".join("%s (`%s`)" % (c, x["keys"][0].split(":", 1)[1] if x["keys"] else "?") for c, x in r.items() if x["exit"] == 1) or "—"
            hist = "caught as built" if not it["missed"] else ("**not claimed** → " if it.get("not_claimed") else "**missed at first** → ") + it.get("strengthened", "")
            if it.get("note"):
                hist += " (" + it["note"] + ")"
            print("| %s/r4/patch%s | %s | %s | %s | %s |" % (prop, it["n"], it["what"].replace("|", "\\|"), it["needs"].replace("|", "\\|"), caught, hist))


if __name__ == "__main__":
    {"run": run, "meta": meta, "table": table}[sys.argv[1]]()
