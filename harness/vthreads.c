/*
 * vthreads - concurrent exec calls from many threads of one process (C09 stress / race-detector arm).
 * Built plain and with -fsanitize=thread; run with LD_PRELOAD="libsnoopy.so libvrec.so".
 * Every call carries a unique token "T<t>C<i>" in its path and argument; per thread the issued tokens are written to
 * <out> together with pthread_self() and gettid(), so that the offline oracle can match records to threads.
 */
#define _GNU_SOURCE
#include <errno.h>
#include <pthread.h>
#include <sched.h>
#include <stdatomic.h>
#include <stdio.h>
#include <stdlib.h>
#include <string.h>
#include <sys/mount.h>
#include <sys/prctl.h>
#include <sys/wait.h>
#include <signal.h>
#include <sys/syscall.h>
#include <unistd.h>

static int T = 8, N = 50;
static int NULLARGV = 0;        /* --nullargv: every 5th call (i % 5 == 3) passes argv NULL (even threads) or {NULL} (odd threads) */
static int CANARY = 0;          /* --canary: a thread that never execs watches process-wide state and its own descriptors */
static long STACK = 0;          /* --stack N: worker threads get N bytes of stack */
static atomic_int workers_done;
static long canary_iter, canary_fd_lost, canary_umask_changed, canary_cwd_changed;
#include <fcntl.h>
#include <sys/stat.h>
static unsigned SEED = 1;
static atomic_int inflight, maxinflight;
static atomic_long nreal;
static FILE *out;
static pthread_mutex_t outm = PTHREAD_MUTEX_INITIALIZER;
static pthread_barrier_t bar;

__attribute__((visibility("default"))) int vdrive_on_exec(const char *fn, const char *path, char *const argv[], char *const envp[], int *ret, int *err) {
    (void) fn; (void) path; (void) argv; (void) envp;
    atomic_fetch_add(&nreal, 1);
    *ret = -1;
    *err = ENOENT;
    return 0;
}

static unsigned rnd(unsigned *s) {
    *s = *s * 1103515245u + 12345u;
    return (*s >> 8) & 0xffffff;
}

static void one_call_x(const char *tok, int use_v, int argv_kind);
static void one_call(const char *tok, int use_v) { one_call_x(tok, use_v, 0); }
static void one_call_x(const char *tok, int use_v, int argv_kind) {
    char path[96], a1[96];
    snprintf(path, sizeof path, "/bin/%s", tok);
    snprintf(a1, sizeof a1, "arg-%s", tok);
    char *argv_full[] = {path, a1, NULL};
    char *argv_empty[] = {NULL};
    char **argv = argv_kind == 0 ? argv_full : argv_kind == 1 ? NULL : argv_empty;
    char *envp[] = {"E=1", NULL};
    int (*volatile p_execv)(const char *, char *const *) = execv;
    int (*volatile p_execve)(const char *, char *const *, char *const *) = execve;
    int c = atomic_fetch_add(&inflight, 1) + 1;
    int m = atomic_load(&maxinflight);
    while (c > m && !atomic_compare_exchange_weak(&maxinflight, &m, c)) {}
    if (use_v) p_execv(path, argv);
    else p_execve(path, argv, envp);
    atomic_fetch_sub(&inflight, 1);
}

static void *worker(void *a) {
    int t = (int) (long) a;
    unsigned s = SEED * 7919u + t * 104729u;
    pthread_mutex_lock(&outm);
    fprintf(out, "THREAD %d %lu %ld\n", t, (unsigned long) pthread_self(), (long) syscall(SYS_gettid));
    pthread_mutex_unlock(&outm);
    pthread_barrier_wait(&bar);
    for (int i = 0; i < N; i++) {
        char tok[64];
        snprintf(tok, sizeof tok, "T%dC%dz", t, i);
        one_call_x(tok, (i + t) & 1, (NULLARGV && i % 5 == 3) ? 1 + (t & 1) : 0);
        if ((rnd(&s) & 3) == 0)
            for (unsigned k = rnd(&s) % 4; k; k--) sched_yield();
    }
    return NULL;
}

/* the canary: opens a file of its own, keeps it for a moment, and checks it is still the same file; reads the process umask
   (from /proc, without changing it) and the working directory.  None of these may be disturbed by exec calls of other threads. */
static void *canary(void *a) {
    (void) a;
    char cwd0[4096] = "", cwd1[4096];
    if (readlink("/proc/self/cwd", cwd0, sizeof cwd0 - 1) < 0) cwd0[0] = 0;
    while (!atomic_load(&workers_done)) {
        canary_iter++;
        int fd = open("canary-file", O_RDWR | O_CREAT, 0600);
        struct stat s0, s1;
        if (fd >= 0 && fstat(fd, &s0) == 0) {
            for (int k = 0; k < 3; k++) sched_yield();
            if (fstat(fd, &s1) != 0 || s1.st_ino != s0.st_ino || s1.st_dev != s0.st_dev) canary_fd_lost++;
            else if (write(fd, "c", 1) != 1) canary_fd_lost++;
            close(fd);
        }
        if (canary_iter % 8 == 0) {
            char buf[2048];
            int sfd = open("/proc/self/status", O_RDONLY);
            if (sfd >= 0) {
                ssize_t r = read(sfd, buf, sizeof buf - 1);
                close(sfd);
                if (r > 0) {
                    buf[r] = 0;
                    const char *u = strstr(buf, "Umask:");
                    if (u && strtol(u + 6, NULL, 8) != 027) canary_umask_changed++;
                }
            }
            ssize_t l = readlink("/proc/self/cwd", cwd1, sizeof cwd1 - 1);
            if (l >= 0) {
                cwd1[l] = 0;
                if (strcmp(cwd0, cwd1)) canary_cwd_changed++;
            }
        }
    }
    return NULL;
}

int main(int argc, char **argv) {
    const char *mnt = NULL, *outp = "issued", *ancestor = NULL;
    for (int i = 1; i < argc; i++) {
        if (!strcmp(argv[i], "--mount")) mnt = argv[++i];
        else if (!strcmp(argv[i], "--threads")) T = atoi(argv[++i]);
        else if (!strcmp(argv[i], "--calls")) N = atoi(argv[++i]);
        else if (!strcmp(argv[i], "--seed")) SEED = atoi(argv[++i]);
        else if (!strcmp(argv[i], "--out")) outp = argv[++i];
        else if (!strcmp(argv[i], "--nullargv")) NULLARGV = 1;
        else if (!strcmp(argv[i], "--ancestor")) ancestor = argv[++i];
        else if (!strcmp(argv[i], "--canary")) CANARY = 1;
        else if (!strcmp(argv[i], "--stack")) STACK = atol(argv[++i]);
    }
    if (mnt) {
        char src[4096], *c;
        snprintf(src, sizeof src, "%s", mnt);
        c = strchr(src, ':');
        *c = 0;
        if (unshare(CLONE_NEWNS) || mount("none", "/", NULL, MS_REC | MS_PRIVATE, NULL) || mount(src, c + 1, NULL, MS_BIND, NULL)) {
            perror("vthreads: namespace");
            return 3;
        }
    }
    if (ancestor) {
        /* the threads run in a child of a process that carries this name (for exclude_spawns_of lists that name an ancestor) */
        prctl(PR_SET_NAME, ancestor);
        pid_t c = fork();
        if (c != 0) {
            int st = 0;
            while (waitpid(c, &st, 0) < 0 && errno == EINTR) {}
            if (WIFSIGNALED(st)) {
                signal(WTERMSIG(st), SIG_DFL);
                raise(WTERMSIG(st));
            }
            return WIFEXITED(st) ? WEXITSTATUS(st) : 1;
        }
        prctl(PR_SET_NAME, "vthreads-leaf");
    }
    out = fopen(outp, "w");
    if (!out) return 3;
    if (T > 256) T = 256;
    pthread_t th[256];
    pthread_barrier_init(&bar, NULL, T);
    umask(027);
    pthread_t can;
    if (CANARY) pthread_create(&can, NULL, canary, NULL);
    pthread_attr_t at;
    pthread_attr_init(&at);
    if (STACK) pthread_attr_setstacksize(&at, STACK);
    for (long t = 0; t < T; t++) pthread_create(&th[t], &at, worker, (void *) t);
    for (int t = 0; t < T; t++) pthread_join(th[t], NULL);
    atomic_store(&workers_done, 1);
    if (CANARY) {
        pthread_join(can, NULL);
        fprintf(out, "CANARY iterations=%ld fd_lost=%ld umask_changed=%ld cwd_changed=%ld\n", canary_iter, canary_fd_lost, canary_umask_changed, canary_cwd_changed);
    }
    fprintf(out, "THREAD %d %lu %ld\n", 9999, (unsigned long) pthread_self(), (long) syscall(SYS_gettid));
    one_call("LONEz", 0);
    fprintf(out, "DONE threads=%d calls=%d maxinflight=%d nreal=%ld\n", T, N, atomic_load(&maxinflight), atomic_load(&nreal));
    fclose(out);
    return 0;
}
