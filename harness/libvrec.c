/*
 * libvrec.so - placed right after libsnoopy.so in LD_PRELOAD, so it is what dlsym(RTLD_NEXT, "execv"/"execve")
 * resolves to from inside Snoopy's wrappers.  Records the call through a callback in the driver and returns the
 * scripted result (or really execs).  Also redirects connect("/dev/log") to the driver's datagram socket
 * ($VREC_DEVLOG), because this VM has no /dev/log.
 */
#define _GNU_SOURCE
#include <dlfcn.h>
#include <errno.h>
#include <stddef.h>
#include <stdlib.h>
#include <string.h>
#include <sys/socket.h>
#include <sys/un.h>
#include <unistd.h>

static char g_devlog[108];
__attribute__((constructor)) static void vrec_init(void) {
    const char *e = getenv("VREC_DEVLOG"); /* read once: cases replace or clear environ later */
    if (e) strncpy(g_devlog, e, sizeof g_devlog - 1);
}

typedef int (*on_exec_fn)(const char *fn, const char *path, char *const argv[], char *const envp[], int *ret, int *err);

static on_exec_fn get_cb(void) {
    static on_exec_fn cb;
    if (!cb) cb = (on_exec_fn) dlsym(RTLD_DEFAULT, "vdrive_on_exec");
    return cb;
}

__attribute__((visibility("default"))) int execve(const char *path, char *const argv[], char *const envp[]) {
    int ret = -1, err = ENOSYS;
    on_exec_fn cb = get_cb();
    int real = cb ? cb("execve", path, argv, envp, &ret, &err) : 1;
    if (real) {
        int (*next)(const char *, char *const *, char *const *) = dlsym(RTLD_NEXT, "execve");
        return next(path, argv, envp);
    }
    errno = err;
    return ret;
}

__attribute__((visibility("default"))) int execv(const char *path, char *const argv[]) {
    int ret = -1, err = ENOSYS;
    on_exec_fn cb = get_cb();
    int real = cb ? cb("execv", path, argv, NULL, &ret, &err) : 1;
    if (real) {
        int (*next)(const char *, char *const *) = dlsym(RTLD_NEXT, "execv");
        return next(path, argv);
    }
    errno = err;
    return ret;
}

__attribute__((visibility("default"))) int connect(int fd, const struct sockaddr *addr, socklen_t len) {
    static int (*next)(int, const struct sockaddr *, socklen_t);
    if (!next) next = dlsym(RTLD_NEXT, "connect");
    if (addr && addr->sa_family == AF_UNIX && len >= offsetof(struct sockaddr_un, sun_path) + 8) {
        const struct sockaddr_un *u = (const struct sockaddr_un *) addr;
        size_t pl = len - offsetof(struct sockaddr_un, sun_path);
        if (pl >= 8 && !strncmp(u->sun_path, "/dev/log", 8) && (pl == 8 || u->sun_path[8] == 0)) {
            const char *redir = g_devlog[0] ? g_devlog : NULL;
            if (redir) {
                struct sockaddr_un r;
                memset(&r, 0, sizeof r);
                r.sun_family = AF_UNIX;
                strncpy(r.sun_path, redir, sizeof r.sun_path - 1);
                return next(fd, (struct sockaddr *) &r, sizeof r);
            }
        }
    }
    return next(fd, addr, len);
}
