"""Reference model of snoopy.ini parsing: inih as this repository builds it (DESIGN Appendix A.1) + the documented
per-option rules of etc/snoopy.ini.in.  model(data, defaults) -> {option: set of acceptable printed values}."""

WS = b" \t\n\v\f\r"
OPTIONS = ["error_logging", "filter_chain", "message_format", "output", "syslog_facility", "syslog_ident", "syslog_level",
           "datasource_message_max_length", "log_message_max_length"]
FACILITIES = ["AUTH", "AUTHPRIV", "CRON", "DAEMON", "FTP", "KERN", "LOCAL0", "LOCAL1", "LOCAL2", "LOCAL3", "LOCAL4", "LOCAL5",
              "LOCAL6", "LOCAL7", "LPR", "MAIL", "NEWS", "SYSLOG", "USER", "UUCP"]
LEVELS = ["EMERG", "ALERT", "CRIT", "ERR", "WARNING", "NOTICE", "INFO", "DEBUG"]
OUTPUTS = {"devlog", "devnull", "devtty", "file", "socket", "stderr", "stdout", "noop"}
MAX_LINE = 1024
OPEN = object()     # marker: any value acceptable for this option (construct outside the documented grammar)


def pieces(data):
    """emulate fgets(buf, 1024): physical lines longer than 1023 bytes arrive in 1023-byte pieces."""
    pos = 0
    n = len(data)
    while pos < n:
        end = data.find(b"\n", pos, pos + MAX_LINE - 1)
        if end >= 0:
            yield data[pos:end + 1]
            pos = end + 1
        else:
            yield data[pos:pos + MAX_LINE - 1]
            pos += MAX_LINE - 1


def find_chars_or_comment(s, start, chars):
    was_space = False
    i = start
    while i < len(s):
        c = s[i:i + 1]
        if chars and c in chars:
            return i
        if was_space and c == b";":
            return i
        was_space = c in (b" ", b"\t", b"\n", b"\v", b"\f", b"\r")
        i += 1
    return i


def handler_calls(data):
    """-> list of (section, name, value) or (section, name, OPEN)"""
    calls = []
    section = b""
    prev = b""
    lineno = 0
    for p in pieces(data):
        lineno += 1
        if b"\0" in p:
            p = p[:p.index(b"\0")]
        start = 0
        if lineno == 1 and p[:3] == b"\xef\xbb\xbf":
            start = 3
        line = p[start:].rstrip(WS)
        stripped = line.lstrip(WS)
        had_leading_ws = len(stripped) < len(line) or False
        # (with a BOM, "start > line" is true as well)
        if start:
            had_leading_ws = True
        s = stripped
        if s == b"" or s[:1] in (b";", b"#"):
            continue
        if prev and had_leading_ws:
            calls.append((section, prev, s))
            continue
        if s[:1] == b"[":
            e = find_chars_or_comment(s, 1, b"]")
            if e < len(s) and s[e:e + 1] == b"]":
                section = s[1:e][:49]
                prev = b""
            continue
        e = find_chars_or_comment(s, 0, b"=:")
        if e < len(s) and s[e:e + 1] in (b"=", b":"):
            name = s[:e].rstrip(WS)
            value = s[e + 1:]
            c = find_chars_or_comment(value, 0, None)
            value = value[:c]
            value = value.strip(WS)
            val = value
            if len(value) >= 2 and value[:1] == b'"' and value[-1:] == b'"':
                val = value[1:-1]
            elif len(value) >= 2 and value[:1] == b"'" and value[-1:] == b"'":
                val = value[1:-1]
            elif value in (b'"', b"'"):
                val = OPEN      # lone quote: outside the documented grammar
            prev = name[:49]
            calls.append((section, name, val))
    return calls


def parse_len(v, default):
    """-> set of acceptable ints"""
    i = 0
    while i < len(v) and v[i:i + 1].isdigit():
        i += 1
    digits = v[:i]
    rest = v[i:]
    if not digits:
        return {default}
    n = int(digits)
    if n == 0:
        return {default, 255}
    factor = 1
    if rest[:1] in (b"k", b"K"):
        factor = 1024
        rest = rest[1:]
    elif rest[:1] in (b"m", b"M"):
        factor = 1048576
        rest = rest[1:]
    val = max(255, min(1048575, n * factor))
    acc = {val}
    if rest:
        acc.add(default)        # trailing garbage: as if absent, or default
    if len(digits) > 18:
        # more digits than any meaningful length: saturation, or (leading zeros) the default, are both accepted
        acc.add(1048575)
        acc.add(default)
    return acc


def syslog_name(v, names, default):
    """-> set of acceptable names"""
    u = bytes(c - 32 if 97 <= c <= 122 else c for c in v)
    core = u[4:] if u.startswith(b"LOG_") else u
    if core.decode("latin-1") in names:
        return {core.decode("latin-1")}
    # doubled prefix: left open
    if core.startswith(b"LOG_") and core[4:].decode("latin-1") in names:
        return {core[4:].decode("latin-1"), default}
    return {default}


def model(data, defaults):
    """defaults: {option: printed default value (str)}.  Returns {option: set(str) | OPEN}."""
    state = {o: {defaults[o]} for o in OPTIONS}
    for section, name, val in handler_calls(data):
        if section != b"snoopy":
            continue
        try:
            n = name.decode("ascii")
        except UnicodeDecodeError:
            continue
        if n not in OPTIONS:
            continue
        if val is OPEN or state[n] is OPEN:
            state[n] = OPEN
            continue
        prev = state[n]
        if n in ("message_format", "filter_chain", "syslog_ident"):
            state[n] = {val.decode("latin-1")}
        elif n == "output":
            if b":" in val:
                nm, arg = val.split(b":", 1)
            else:
                nm, arg = val, b""
            if nm.decode("latin-1") in OUTPUTS:
                state[n] = {(nm + (b":" + arg if arg else b"")).decode("latin-1")}
            else:
                state[n] = {defaults["output"]}
        elif n == "error_logging":
            c = val[:1]
            if c and c in b"yYtT1":
                state[n] = {"yes"}
            elif c and c in b"nNfF0":
                state[n] = {"no"}
            else:
                state[n] = set(prev) | {defaults[n]}      # unparsable: previous value or default (open)
        elif n == "syslog_facility":
            r = syslog_name(val, FACILITIES, defaults[n])
            state[n] = r if r != {defaults[n]} else (r | set(prev))     # unparsable: default, or the value is ignored (open)
        elif n == "syslog_level":
            r = syslog_name(val, LEVELS, defaults[n])
            state[n] = r if r != {defaults[n]} else (r | set(prev))
        else:
            state[n] = {str(x) for x in parse_len(val, int(defaults[n]))}
    return state
