/*
 * vforkstorm - C10 storm arm: T threads keep making wrapped (failing) exec calls while the main thread forks again and again;
 * every child makes one wrapped exec call of its own and must finish.  Run under strace with delay injection on the files the
 * library (and libc on its behalf) reads, so that the forks land while other threads are inside those reads.
 * Prints one JSON line: forks, children that completed, children that had to be killed (blocked), their last syscall.
 */
#define _GNU_SOURCE
#include <errno.h>
#include <fcntl.h>
#include <pthread.h>
#include <sched.h>
#include <signal.h>
#include <stdatomic.h>
#include <stdio.h>
#include <stdlib.h>
#include <string.h>
#include <sys/mount.h>
#include <sys/wait.h>
#include <time.h>
#include <unistd.h>

static atomic_int stop;
static atomic_long ncalls;

__attribute__((visibility("default"))) int vdrive_on_exec(const char *fn, const char *path, char *const argv[], char *const envp[], int *ret, int *err) {
    (void) fn; (void) path; (void) argv; (void) envp;
    *ret = -1;
    *err = ENOENT;
    return 0;
}

#include <execinfo.h>
/* a child that does not finish its call within 3 s says where it is stuck (written to stderr), then stays for the parent's verdict */
static void stuck_handler(int sig) {
    (void) sig;
    void *bt[40];
    int n = backtrace(bt, 40);
    static const char hdr[] = "STUCK-CHILD-BACKTRACE\n";
    if (write(2, hdr, sizeof hdr - 1) < 0) {}
    backtrace_symbols_fd(bt, n, 2);
    pause();
}

static void one_call(const char *tok) {
    char path[96];
    snprintf(path, sizeof path, "/bin/%s", tok);
    char *argv[] = {path, "a", NULL};
    char *envp[] = {"E=1", NULL};
    int (*volatile p_execve)(const char *, char *const *, char *const *) = execve;
    p_execve(path, argv, envp);
}

static void *worker(void *a) {
    (void) a;
    while (!atomic_load(&stop)) {
        one_call("STORMWORKERz");
        atomic_fetch_add(&ncalls, 1);
    }
    return NULL;
}

int main(int argc, char **argv) {
    const char *mnt = NULL, *utmp_from = NULL;
    int T = 4, forks = 60, child_ms = 8000, first_delay_ms = 0;
    for (int i = 1; i < argc; i++) {
        if (!strcmp(argv[i], "--mount")) mnt = argv[++i];
        else if (!strcmp(argv[i], "--utmp-from")) utmp_from = argv[++i];
        else if (!strcmp(argv[i], "--threads")) T = atoi(argv[++i]);
        else if (!strcmp(argv[i], "--forks")) forks = atoi(argv[++i]);
        else if (!strcmp(argv[i], "--child-ms")) child_ms = atoi(argv[++i]);
        else if (!strcmp(argv[i], "--first-delay-ms")) first_delay_ms = atoi(argv[++i]);
    }
    if (mnt) {
        char src[4096], *c;
        snprintf(src, sizeof src, "%s", mnt);
        c = strchr(src, ':');
        *c = 0;
        if (unshare(CLONE_NEWNS) || mount("none", "/", NULL, MS_REC | MS_PRIVATE, NULL) || mount(src, c + 1, NULL, MS_BIND, NULL)) {
            perror("vforkstorm: namespace");
            return 3;
        }
        if (utmp_from) {
            /* a private /run with a utmp file of our own (the login / ipaddr sources read it under libc's utmp lock) */
            char buf[65536];
            int in = open(utmp_from, O_RDONLY);
            ssize_t n = in >= 0 ? read(in, buf, sizeof buf) : -1;
            if (in >= 0) close(in);
            if (n < 0 || mount("none", "/run", "tmpfs", 0, NULL)) {
                perror("vforkstorm: /run");
                return 3;
            }
            int o = open("/run/utmp", O_WRONLY | O_CREAT, 0644);
            if (o < 0 || write(o, buf, n) != n) return 3;
            close(o);
        }
    }
    pthread_t th[64];
    if (T > 64) T = 64;
    for (long t = 0; t < T; t++) pthread_create(&th[t], NULL, worker, NULL);
    if (first_delay_ms) {
        /* let the first fork land somewhere inside the threads' very first calls */
        struct timespec fd_ = {first_delay_ms / 1000, (first_delay_ms % 1000) * 1000000L};
        nanosleep(&fd_, NULL);
    }
    int completed = 0, blocked = 0, died = 0;
    char last[700] = "";
    for (int f = 0; f < forks; f++) {
        struct timespec ts = {0, (3 + f % 7) * 1000 * 1000};
        nanosleep(&ts, NULL);
        pid_t p = fork();
        if (p == 0) {
            signal(SIGALRM, stuck_handler);
            alarm(3);
            one_call("STORMCHILDz");
            _exit(0);
        }
        if (p < 0) continue;
        int st = 0, done = 0;
        for (int waited = 0; waited < child_ms; waited += 5) {
            if (waitpid(p, &st, WNOHANG) == p) { done = 1; break; }
            struct timespec w = {0, 5 * 1000 * 1000};
            nanosleep(&w, NULL);
        }
        if (!done) {
            char pth[64];
            snprintf(pth, sizeof pth, "/proc/%d/syscall", p);
            int fd = open(pth, O_RDONLY);
            if (fd >= 0) {
                ssize_t r = read(fd, last, sizeof last - 1);
                if (r > 0) last[r] = 0;
                close(fd);
                for (char *q = last; *q; q++) if (*q == '\n' || *q == '"') *q = ' ';
            }
            /* which object does the futex word (first syscall argument) live in? */
            unsigned long long nr = 0, a0 = 0;
            if (sscanf(last, "%llu %llx", &nr, &a0) == 2 && nr == 202) {
                snprintf(pth, sizeof pth, "/proc/%d/maps", p);
                FILE *mf = fopen(pth, "r");
                char ml[512];
                while (mf && fgets(ml, sizeof ml, mf)) {
                    unsigned long long lo, hi, off;
                    char perms[8], dev[16], name[300] = "";
                    unsigned long ino;
                    if (sscanf(ml, "%llx-%llx %7s %llx %15s %lu %299s", &lo, &hi, perms, &off, dev, &ino, name) >= 6 && a0 >= lo && a0 < hi) {
                        size_t l = strlen(last);
                        snprintf(last + l, sizeof last - l, " futex-in:%s+0x%llx(map-offset 0x%llx)", name[0] ? name : "[anon]", a0 - lo, off);
                        break;
                    }
                }
                if (mf) fclose(mf);
            }
            kill(p, SIGKILL);
            waitpid(p, &st, 0);
            blocked++;
        } else if (WIFEXITED(st) && WEXITSTATUS(st) == 0) completed++;
        else died++;
    }
    atomic_store(&stop, 1);
    for (int t = 0; t < T; t++) pthread_join(th[t], NULL);
    printf("{\"ev\":\"STORM\",\"threads\":%d,\"forks\":%d,\"completed\":%d,\"blocked\":%d,\"died\":%d,\"worker_calls\":%ld,\"blocked_syscall\":\"%s\"}\n",
           T, forks, completed, blocked, died, atomic_load(&ncalls), last);
    return 0;
}
