#!/usr/bin/env python3
"""Entry point of the verification machinery.

  verif.py check C01 [--tier quick|thorough]     run one property check against /repo's working tree
  verif.py setup                                  build the repo-independent harness programs
  verif.py clean                                  remove all scratch builds

Exit codes of `check`: 0 held on everything explored (possibly with KNOWN-FINDING lines), 1 violation
(a line `VIOLATION property=<id> replay=<path>` is printed), 2 harness failure / inconclusive run.
"""
import importlib
import os
import sys
import traceback

sys.path.insert(0, os.path.dirname(os.path.abspath(__file__)))

from vlib import build as vbuild          # noqa: E402
from vlib.common import Harness, ensure_dirs  # noqa: E402
from vlib.drive import ensure_harness     # noqa: E402


def main(argv):
    if len(argv) < 2:
        print(__doc__)
        return 2
    cmd = argv[1]
    if cmd == "setup":
        ensure_dirs()
        ensure_harness()
        return 0
    if cmd == "clean":
        vbuild.cleanup_all()
        return 0
    if cmd == "check":
        prop = argv[2].upper()
        if "--tier" in argv:
            os.environ["VERIF_TIER"] = argv[argv.index("--tier") + 1]
        try:
            mod = importlib.import_module("checks." + prop.lower())
            rc = mod.main()
        except Harness as e:
            print("HARNESS-FAILURE property=%s %s" % (prop, e))
            return 2
        except Exception:
            traceback.print_exc()
            print("HARNESS-FAILURE property=%s unexpected exception" % prop)
            return 2
        return rc
    print(__doc__)
    return 2


if __name__ == "__main__":
    sys.exit(main(sys.argv))
